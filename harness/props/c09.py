"""C09 -- inconsistent dynamics entries are rejected, consistent ones are not."""
import copy
import json

from harness.core import pool, tb

PROOF_MODULE = ["OdeVerif.Proofs.C09", "OdeVerif.Proofs.RefineFromJson"]
GENERATED = ['Constants', 'PyFromJson']
THEOREMS = ["OdeVerif.C09.wellformed_accepted", "OdeVerif.C09.no_expression_rejected", "OdeVerif.C09.eq_count_rejected",
            "OdeVerif.C09.missing_initial_values_rejected", "OdeVerif.C09.both_spellings_rejected", "OdeVerif.C09.single_value_wrong_order_rejected",
            "OdeVerif.C09.wrong_number_rejected", "OdeVerif.C09.other_variable_rejected", "OdeVerif.C09.order_too_high_rejected",
            "OdeVerif.C09.duplicate_rejected", "OdeVerif.C09.reserved_name_rejected", "OdeVerif.C09.marker_in_name_rejected",
            "OdeVerif.C09.validateAll_first_bad",
            "OdeVerif.Refine.fromJson_refines", "OdeVerif.Refine.fromJson_never_ivMissing"]
LEVEL = "proof"

NAMES = ["x", "V_m", "g_ex", "y2", "_u", "I"]
RESERVED_SAMPLE = ["e", "t", "E", "exp", "log", "Heaviside", "max", "Symbol"]
RHS = {1: ["-{n}/tau", "-2*{n}", "-{n}/tau + 1"], 2: ["-{n}/tau**2 - 2*{n}'/tau", "-2*{n} - 3*{n}'"], 3: ["-{n} - 3*{n}' - 3*{n}''"]}
FUN = ["exp(-t/tau)", "t*exp(-t)", "2*exp(-3*t)"]
MSG_KIND = [("No `expression` keyword", "no-expression"), ("Expecting exactly one", "eq-count"), ("Error while parsing expression", "lhs-tokens"),
            ("Error while parsing symbol name", "no-symbol"), ("No initial values specified", "no-initial-values"),
            ("cannot be specified simultaneously", "both-spellings"), ("Single initial value specified", "single-not-first-order"),
            ("Wrong number of initial values", "wrong-number"), ("Error trying to parse initial value variable symbol", "iv-no-symbol"),
            ("does not match equation variable symbol", "iv-other-variable"), ("exceeds that of overall equation order", "iv-order-too-high"),
            ("specified more than once", "iv-duplicate"), ("not specified for all differential orders", "iv-missing"),
            ("should not contain the string", "marker-in-name"), ("clashes with a predefined symbol", "reserved")]


def wf_entry(rng, name, order):
    if order == 0:
        return {"expression": "%s = %s" % (name, rng.choice(FUN))}
    e = {"expression": "%s%s = %s" % (name, "'" * order, rng.choice(RHS[order]).format(n=name))}
    if order == 1 and rng.random() < 0.5:
        e["initial_value"] = rng.choice(["1", "0", "e/tau"])
    else:
        ks = list(range(order))
        if order >= 2 and rng.random() < 0.5:
            ks = ks[::-1] if order == 2 or rng.random() < 0.5 else ks[1:] + ks[:1]      # the order of the keys carries no meaning
        e["initial_values"] = {name + "'" * k: rng.choice(["1", "0", "2.5"]) for k in ks}
    return e


def corruptions(entry, name, order, marker):
    """(kind, corrupted entry, expected class) for every single structural corruption of `entry`, at every slot"""
    out = []
    e = copy.deepcopy(entry)
    del e["expression"]
    out.append(("no-expression", e, "malformed"))
    lhs, rhs = entry["expression"].split("=")
    out.append(("eq0", dict(entry, expression=lhs + " " + rhs), "malformed"))
    out.append(("eq2", dict(entry, expression=entry["expression"] + " = 0"), "malformed"))
    out.append(("both-spellings", dict(entry, initial_value="1", initial_values={name + "'" * k: "1" for k in range(max(order, 1))}), "malformed"))
    # both keys present, the singular one with an empty / null / zero value (an entry built from a stored record that always carries both keys):
    # refusing "both spellings" is about the KEYS, not about what they hold
    for tag, val in (("empty", ""), ("null", None), ("zero", "0")):
        out.append(("both-spellings-" + tag, dict(entry, initial_value=val, initial_values={name + "'" * k: "1" for k in range(max(order, 1))}), "malformed"))
    if order >= 1:
        e = {k: v for k, v in entry.items() if k not in ("initial_value", "initial_values")}
        out.append(("iv-missing-all", e, "malformed"))
    if order != 1:
        e = {k: v for k, v in entry.items() if k != "initial_values"}
        e["initial_value"] = "1"
        out.append(("single-wrong-order", e, "malformed"))
    if order >= 1:
        ivs = {name + "'" * k: "1" for k in range(order)}
        base = {k: v for k, v in entry.items() if k != "initial_value"}
        out.append(("iv-superfluous", dict(base, initial_values=dict(ivs, **{name + "'" * order: "1"})), "malformed"))
        for slot in range(order):
            keys = [name + "'" * k for k in range(order)]
            less = {k: "1" for i, k in enumerate(keys) if i != slot}
            out.append(("iv-missing-slot%d" % slot, dict(base, initial_values=less), "malformed"))
            other = dict(ivs)
            del other[keys[slot]]
            other["zz" + "'" * slot] = "1"
            out.append(("iv-other-variable-slot%d" % slot, dict(base, initial_values=_ordered(other, keys, slot, "zz" + "'" * slot)), "malformed"))
            high = {k: "1" for i, k in enumerate(keys) if i != slot}
            hk = name + "'" * (order + slot)
            out.append(("iv-order-too-high-slot%d" % slot, dict(base, initial_values=_ordered(dict(high, **{hk: "1"}), keys, slot, hk)), "malformed"))
            for k in range(order):
                if k != slot:
                    dk = name + "'" * k + " "
                    dup = {kk: "1" for i, kk in enumerate(keys) if i != slot}
                    out.append(("iv-duplicate-slot%d-order%d" % (slot, k), dict(base, initial_values=_ordered(dict(dup, **{dk: "1"}), keys, slot, dk)), "malformed"))
    for r in ("e", "t", "exp"):
        ee = json.loads(json.dumps(entry).replace(name, r)) if name not in ("e", "t") else None
        if ee is not None and name not in "tau":
            out.append(("reserved-name-" + r, ee, "any-error"))
    mk = name + marker
    ee = json.loads(json.dumps(entry).replace(name, mk))
    out.append(("marker-in-name", ee, "any-error"))
    # the ambiguity the check exists to prevent: the name is ANOTHER variable's name plus the marker
    ee = json.loads(json.dumps(entry).replace(name, "w_other" + marker))
    out.append(("marker-in-name-colliding", ee, "any-error"))
    return out


def _ordered(d, keys, slot, newkey):
    """dict with the replaced key at position `slot` (JSON object order is the iteration order the code sees)"""
    out = {}
    for i, k in enumerate(keys):
        kk = newkey if i == slot else k
        out[kk] = d[kk]
    return out


def classify_real(indict, flags=None):
    import odetoolbox
    from odetoolbox.shapes import MalformedInputException
    tb.reset_config()
    try:
        res = odetoolbox.analysis(json.loads(json.dumps(indict)), disable_stiffness_check=True, **(flags or {}))
        return {"class": "ok", "n_solvers": len(res)}
    except MalformedInputException as e:
        msg = str(e)
        kind = next((k for m, k in MSG_KIND if m in msg), "unmapped:" + msg[:60])
        return {"class": "malformed", "kind": kind}
    except BaseException as e:
        return {"class": "other-error", "type": type(e).__name__, "msg": str(e)[:100]}


def _fi(case):
    """the failing input as recorded in a replay: the dictionary alone when analysis() got no further arguments"""
    if case.get("flags") or case.get("pre_calls"):
        return {"indict": case["indict"], "flags": case.get("flags", {}), "pre_calls": case.get("pre_calls", [])}
    return case["indict"]


def case_validate(case):
    # earlier calls in the same process (their outcome is irrelevant): acceptance of an entry must not depend on them
    for pre in case.get("pre_calls", []):
        classify_real(pre)
    return classify_real(case["indict"], case.get("flags"))


def _init_worker():
    tb.import_toolbox()


def to_model_entry(e):
    m = {}
    if "expression" in e:
        m["expression"] = e["expression"]
    if "initial_value" in e:
        m["initial_value"] = "None" if e["initial_value"] is None else e["initial_value"]      # the key is present: the model sees a string
    if "initial_values" in e:
        m["initial_values"] = [[k, v] for k, v in e["initial_values"].items()]
    return m


def run(ctx, driver):
    tb.import_toolbox()
    quick = ctx.tier == "quick"
    rng = ctx.rng("entries")
    marker = "__d"
    ctx.rule = ("well-formed inputs of 1-2 entries (orders 0..3, both initial-value spellings) and ALL single structural corruptions of each entry at every "
                "initial-value slot (no expression; 0 or 2 '='; initial values missing / superfluous / duplicated via key spelling / for another variable / "
                "for a derivative >= order; both spellings; single value on a non-first-order equation; reserved names; marker in name), plus unknown option keys; "
                "distinct = distinct inputs; non-trivial = every corrupted input and every well-formed input of order >= 1; both-spellings also with an empty / null / zero singular value; every 4th input analysed with preserve_expressions=True, every 4th with the analytic solver disabled")
    cases = []
    nbase = ctx.n(10, 120)
    for i in range(nbase):
        order = i % 4
        name = NAMES[i % len(NAMES)]
        entry = wf_entry(rng, name, order)
        other = wf_entry(rng, "w_other", rng.choice([1, 2]))
        for pos in (0, 1):
            good = [entry, other] if pos == 0 else [other, entry]
            cases.append({"indict": {"dynamics": good}, "kind": "wellformed", "expect": "not-malformed", "order": order, "pos": pos})
            for kind, bad, expect in corruptions(entry, name, order, marker):
                dyn = [bad, other] if pos == 0 else [other, bad]
                cases.append({"indict": {"dynamics": dyn}, "kind": kind, "expect": expect, "order": order, "pos": pos})
        cases.append({"indict": {"dynamics": [entry], "options": {"no_such_option": "1"}}, "kind": "unknown-option", "expect": "any-error", "order": order, "pos": 0, "skip_model": True})
    # well-formed entries whose variable carries a name that an EARLIER call of the same process used as the value of a
    # symbol-valued option: a conforming entry is never rejected, whatever was analysed before
    for j in range(ctx.n(6, 40)):
        val = ["T", "s", "time", "dt", "zz", "_D"][j % 6]
        opt = ["input_time_symbol", "input_time_symbol", "output_timestep_symbol", "differential_order_symbol"][j % 4]
        if opt == "differential_order_symbol" and not val.startswith("_"):
            opt = "input_time_symbol"
        if opt == "input_time_symbol":
            pre = {"dynamics": [{"expression": "I_k = exp(-%s / tau)" % val}, {"expression": "V' = -V / tau_m + I_k", "initial_value": "0"}], "options": {opt: val}}
        else:
            pre = {"dynamics": [{"expression": "V' = -V / tau_m", "initial_value": "0"}], "options": {opt: val}}
        name = val if not val.startswith("_") else "q" + val
        order = 1 + (j % 2)
        entry = wf_entry(rng, name, order)
        cases.append({"indict": {"dynamics": [entry]}, "pre_calls": [pre], "kind": "wellformed-after-option-call", "expect": "not-malformed", "order": order, "pos": 0})
    # the verdict on an entry must not depend on the other arguments of analysis(): every 4th input is analysed with preserve_expressions,
    # every 4th with the analytic solver disabled
    for idx, c_ in enumerate(cases):
        if idx % 4 == 1:
            c_["flags"] = {"preserve_expressions": True}
        elif idx % 4 == 3:
            c_["flags"] = {"disable_analytic_solver": True}
    results = pool.run_cases("harness.props.c09", "case_validate", cases, timeout=60, init="_init_worker", deadline=ctx.deadline())
    ops = []
    for case, res in zip(cases, results):
        ctx.evaluations += 1
        if res.get("timeout") or res.get("skipped_budget") or res.get("harness_error"):
            ctx.count("skipped")
            if res.get("harness_error"):
                ctx.cov.setdefault("harness_errors", []).append(res["harness_error"][:300])
            continue
        ctx.count("kind:" + case["kind"].split("-slot")[0])
        ctx.count("order:%d" % case["order"])
        ctx.count("flags:" + (",".join(sorted(case.get("flags", {}))) or "none"))
        ctx.note_nontrivial(json.dumps(case["indict"], sort_keys=True))
        cls = res["class"]
        sig = {"corruption": case["kind"].split("-slot")[0], "order": case["order"]}
        if case["expect"] == "not-malformed":
            if cls == "malformed":
                ctx.fail("wellformed-rejected-as-malformed", _fi(case), {"observed": res, "signature": sig})
            elif cls != "ok":
                ctx.count("wellformed_other_error")
                ctx.cov.setdefault("wellformed_other_errors", []).append(res)
        elif case["expect"] == "malformed":
            if cls != "malformed":
                ctx.fail("corruption-not-rejected-as-malformed", _fi(case), {"corruption": case["kind"], "observed": res, "signature": sig})
        else:
            if cls == "ok":
                ctx.fail("corruption-accepted", _fi(case), {"corruption": case["kind"], "observed": res, "signature": sig})
        if not case.get("skip_model"):
            ops.append((case, res))
    ctx.sample({"corruption": cases[5]["kind"], "indict": cases[5]["indict"], "impl": results[5]})
    if driver is not None and ops:
        ans = driver.ask([("validate", {"marker": marker, "entries": [to_model_entry(e) for e in c["indict"]["dynamics"]]}) for c, _ in ops])
        for (case, res), a in zip(ops, ans):
            ctx.count("corr_validate")
            m = a.get("all", {})
            ok = True
            if m.get("kind") == "ok":
                ok = res["class"] != "malformed"
            elif m.get("kind") == "malformed":
                if case["order"] == 0 and m.get("what") == "marker-in-name":
                    ok = res["class"] != "ok"
                else:
                    ok = res["class"] == "malformed" and res.get("kind") == m.get("what")
            elif m.get("kind") == "reserved":
                ok = res["class"] != "ok"
            else:
                ok = False
            if not ok:
                ctx.tie_break("corr:validate", {"case": case["indict"], "corruption": case["kind"], "model": m, "impl": res})
    ctx.assumptions += [
        "JSON objects are ordered (Python dict order = the order the entries and initial values are read in)",
        "only ASCII white space and ASCII identifiers are generated (Python's \\s and str methods on non-ASCII input are outside the model)",
        "parsing of the right-hand side (SymPy) is outside the model: 'ok' means the entry passes every structural check",
    ]


def replay(rp):
    tb.import_toolbox()
    fi = rp["failing_input"]
    if "indict" in fi and "dynamics" not in fi:
        for pre in fi.get("pre_calls", []):
            classify_real(pre)
        r = classify_real(fi["indict"], fi.get("flags"))
    else:
        r = classify_real(fi)
    print(json.dumps(r))
    return 0
