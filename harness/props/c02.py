"""C02 -- numeric-solver expressions equal the user's right-hand sides (lossless split)."""
import json
from fractions import Fraction

from harness.core import numeval, tb
from harness.gen import systems
from harness.props import _shared

PROOF_MODULE = ["OdeVerif.Proofs.C02", "OdeVerif.Proofs.PipelineLossless", "OdeVerif.Proofs.RefineNumeric", "OdeVerif.Proofs.RefineSplit", "OdeVerif.Proofs.RefineFromOde", "OdeVerif.Proofs.RefineFromShapes", "OdeVerif.Proofs.RefineSubSystem", "OdeVerif.Proofs.RefinePreserve"]
GENERATED = ["PyNumeric", "PySplit", "PyFromOde", "PyFromShapes", "PySubSystem", "PyPreserve"]
THEOREMS = ["OdeVerif.C02.split_lossless", "OdeVerif.C02.classify_lin_lt", "OdeVerif.C02.split_const_coeffs", "OdeVerif.C02.fromOde_lossless",
            "OdeVerif.C02.unit_row_value", "OdeVerif.C02.subsystem_lossless", "OdeVerif.C02.numericRhs_eq_row", "OdeVerif.C02.numericRhs_eq_userRhs",
            "OdeVerif.PipelineSpec.splitRow_lossless", "OdeVerif.PipelineSpec.splitRow_A_const", "OdeVerif.PipelineSpec.splitRow_b_const", "OdeVerif.PipelineSpec.unitRow_den", "OdeVerif.PipelineSpec.rows_lossless", "OdeVerif.PipelineSpec.numericRhs_lossless", "OdeVerif.PipelineSpec.analyse_numeric_rhs",
            "OdeVerif.Refine.numericExpressions_rows", "OdeVerif.Refine.numericExpressions_value",
            "OdeVerif.Refine.splitLinInhomNonlin_refines", "OdeVerif.Refine.splitLinInhomNonlin_lin_index",
            "OdeVerif.Refine.fromOdeReattach_refines",
            "OdeVerif.Refine.fromShapesRows_unit_rows", "OdeVerif.Refine.fromShapesRows_top_row", "OdeVerif.Refine.subSystem_idx", "OdeVerif.Refine.subSystem_A_b", "OdeVerif.Refine.subSystem_c",
            "OdeVerif.Refine.getAllFirstOrderVariables_refines", "OdeVerif.Refine.findVariableDefinition_refines", "OdeVerif.Refine.findDef_isSome_of_mem", "OdeVerif.Refine.findDef_some", "OdeVerif.Refine.preserveBlock_refines", "OdeVerif.Refine.preserveList_ok", "OdeVerif.Refine.preserveSpec_notFirstOrder_iff", "OdeVerif.Refine.preserveSpec_ok_mem", "OdeVerif.Refine.entry_numeric_is_user_text", "OdeVerif.Refine.entry_none"]
LEVEL = "proof"

SIMPLIFY = [None, None, "sympy.logcombine(sympy.powsimp(sympy.expand(expr)))", "expr", "sympy.factor(expr)"]
FUNCS = [("I_f", "exp(-t/tau_s)"), ("I_f", "(e/tau)*t*exp(-t/tau)"), ("osc", "sin(w*t)"), ("I_f", "2*exp(-t) - exp(-3*t)")]


def _flags(rng, g):
    f = {}
    if rng.random() < 0.35:
        f["disable_analytic_solver"] = True
    r = rng.random()
    names = [d["expression"].split("=")[0].strip() for d in g["indict"]["dynamics"]]
    first = [n[:-1] for n in names if n.count("'") == 1]
    if r < 0.25:
        f["preserve_expressions"] = True
    elif r < 0.4 and first:
        f["preserve_expressions"] = rng.sample(first, rng.randint(1, len(first)))
    se = rng.choice(SIMPLIFY)
    if se:
        f["simplify_expression"] = se
    # a first-order equation whose right-hand side refers to a derivative: preserved text must be re-spelt with the configured marker
    primed = [d["expression"].split("=")[0].strip()[:-1] for d in g["indict"]["dynamics"]
              if d["expression"].split("=")[0].count("'") == 1 and "'" in d["expression"].split("=")[1]]
    if primed and rng.random() < 0.7:
        g["indict"].setdefault("options", {})["differential_order_symbol"] = rng.choice(["__DD", "_prime", "__d", "_D"])
        f["preserve_expressions"] = True if rng.random() < 0.5 else [rng.choice(primed)]
        f.pop("simplify_expression", None)
        if rng.random() < 0.6:
            f["disable_analytic_solver"] = True
        g["primed_preserved"] = True
    return f


def _extra(rng, g):
    # sometimes: two first-order variables of which one name is a prefix of the other (V_d before V), the shorter one preserved, all numeric -
    # the preserved text must be the text of THAT variable's equation
    import re as _re
    dyn0 = g["indict"]["dynamics"]
    fo = [d["expression"].split("=")[0].strip()[:-1] for d in dyn0 if d["expression"].split("=")[0].count("'") == 1]
    if len(fo) >= 2 and rng.random() < 0.15 and "options" not in g["indict"]:
        ids = set(_re.findall(r"[A-Za-z_][A-Za-z0-9_]*", json.dumps(g["indict"])))
        pa, pb = rng.choice(systems.AWKWARD_PAIRS)
        if pa not in ids and pb not in ids and len(pa) != len(pb):
            short, long_ = (pa, pb) if len(pa) < len(pb) else (pb, pa)
            first_two = fo[:2]          # in input order: the earlier entry gets the LONGER name
            g["indict"] = systems.apply_mapping(g["indict"], {first_two[0]: long_, first_two[1]: short})
            g["flags"] = dict(g.get("flags", {}), preserve_expressions=rng.choice([True, [short], [short, long_]]), disable_analytic_solver=True)
            g["flags"].pop("simplify_expression", None)
            g["prefix_names_preserved"] = True
    # sometimes add a function-of-time entry that another equation reads
    if rng.random() < 0.2:
        name, f = rng.choice(FUNCS)
        f = systems.in_time_symbol(f, g["indict"])      # the function is one of the CONFIGURED time variable
        dyn = g["indict"]["dynamics"]
        dyn.append({"expression": "%s = %s" % (name, f)})
        k = rng.randrange(len(dyn) - 1)
        dyn[k]["expression"] += rng.choice([" + %s", " + 2*%s", " + %s/C_m"]) % name
        g["has_function"] = True
        for p in ("tau", "tau_s", "w", "C_m"):
            if "parameters" in g["indict"] and p in f + dyn[k]["expression"] and p not in g["indict"]["parameters"]:
                g["indict"]["parameters"][p] = systems.PARAM_VALUES[p]


def run(ctx, driver):
    tb.import_toolbox()
    quick = ctx.tier == "quick"
    ctx.rule = ("generated systems (17 coupling shapes x random spelling x entry order) x flags (disable_analytic_solver, preserve_expressions False/True/list, "
                "5 simplify_expression settings), 20% with a function-of-time entry read by another equation; distinct = distinct (input, flags); "
                "non-trivial = at least one variable in a numeric solver; targeted: first-order equations that refer to a derivative, preserved under a custom marker; two first-order variables of which one name is a prefix of the other, the shorter preserved; glue correspondence of the preserve_expressions block")
    cases = _shared.gen_cases(ctx, ctx.n(130, 3000), flags=_flags, extra=_extra)
    results = _shared.run_full(ctx, cases, timeout=50)
    for case, res in zip(cases, results):
        ctx.evaluations += 1
        if not _shared.usable(ctx, res):
            continue
        flags = case.get("flags", {})
        ctx.count("flags:" + ",".join(sorted(k if not isinstance(v, list) else k + "=list" for k, v in flags.items())) or "flags:none")
        if case.get("primed_preserved"):
            ctx.count("primed_reference_preserved")
        if case.get("prefix_names_preserved"):
            ctx.count("prefix_names_preserved")
        if res.get("error"):
            ctx.count("analysis_error:" + res["error"]["type"])
            continue
        if "numeric_check_error" in res:
            ctx.count("oracle_error")
            ctx.cov.setdefault("oracle_errors", []).append(res["numeric_check_error"])
            continue
        rows = res.get("numeric_check") or []
        marker = res["marker"]
        pres = flags.get("preserve_expressions", False)
        user = {}
        for d in case["indict"]["dynamics"]:
            lhs, rhs = d["expression"].split("=")
            if lhs.count("'") == 1:
                user[lhs.strip()[:-1]] = rhs.strip()
        preserved = set()
        for s in res.get("solvers", []):
            if not s["solver"].startswith("numeric"):
                continue
            ctx.note_nontrivial(json.dumps([case["indict"], flags], sort_keys=True))
            for v, e in s["update_expressions"].items():
                want_preserved = (pres is True and v in user) or (isinstance(pres, list) and v in pres)
                if want_preserved:
                    ctx.count("preserve_checked")
                    preserved.add(v)
                    if e != user[v].replace("'", marker):
                        ctx.fail("expression-not-preserved", {"indict": case["indict"], "flags": flags}, {"variable": v, "expected": user[v].replace("'", marker), "observed": e,
                                                                                                       "signature": {"site": "preserve_expressions"}})
            if flags.get("disable_analytic_solver"):
                want = set(res.get("x", []))
                if set(s["state_variables"]) != want:
                    ctx.fail("disable-analytic-not-all-numeric", {"indict": case["indict"], "flags": flags}, {"expected": sorted(want), "observed": s["state_variables"], "signature": {"site": "disable_analytic_solver"}})
        seen_bad = set()
        for r in rows:
            ctx.count("rhs_checked:" + r["kind"])
            if r["got"] is None or r["want"] is None:
                ctx.count("rhs_undefined_at_point")
                continue
            if not numeval.close(Fraction(r["got"]), Fraction(r["want"]), Fraction(1, 10 ** 10)) and r["var"] not in seen_bad:
                seen_bad.add(r["var"])
                ctx.fail("numeric-expression-differs-from-rhs", {"indict": case["indict"], "flags": flags},
                         {"variable": r["var"], "update_expression": r["expr"], "value": float(Fraction(r["got"])), "user_rhs_value": float(Fraction(r["want"])),
                          "signature": {"site": "numeric update expression", "kind": r["kind"], "preserved": r["var"] in preserved}})
    ctx.sample({"indict": cases[-1]["indict"], "flags": cases[-1].get("flags"),
                "numeric_update_expressions": [s["update_expressions"] for s in (results[-1].get("solvers") or []) if s["solver"].startswith("numeric")] if isinstance(results[-1], dict) else None})
    _shared.corr_split(ctx, driver, cases, results)
    _shared.corr_subsys(ctx, driver, cases, results)
    _shared.corr_from_ode(ctx, driver, cases, results)
    _shared.corr_pipeline(ctx, driver, cases, results)
    _shared.corr_glue(ctx, driver, cases, results, parts=("preserve",))
    ctx.assumptions += [
        "SymPy contracts (denotation preserved): parse_expr, str (re-parse round trip in reconstitute_expr), expand, simplify / the user's simplify_expression, collect; term / sym is exact division of rational functions",
        "values are compared at random rational points (transcendental atoms at 40 digits); agreement is Schwartz-Zippel evidence for the correspondence, never a proof",
    ]


def replay(rp):
    from harness.core import cases
    tb.import_toolbox()
    fi = rp["failing_input"]
    r = cases.case_full({"indict": fi["indict"], "flags": fi.get("flags", {}), "pt_seed": 1})
    print(json.dumps({"solvers": r.get("solvers"), "numeric_check": r.get("numeric_check"), "error": r.get("error")}, indent=1)[:3000])
    return 0
