"""C16 -- command-line tool and Python API give the same answer (PARTIAL: control flow proved; argparse/OS observed)."""
import json
import os
import shutil
import subprocess
import sys
import tempfile

from harness.core import pool, tb
from harness.gen import systems

PROOF_MODULE = ["OdeVerif.Proofs.C07", "OdeVerif.Proofs.RefineCli"]
GENERATED = ["CliTable"]
THEOREMS = ["OdeVerif.C16.flags_passed_through", "OdeVerif.C16.content_eq_api", "OdeVerif.C16.failure_nonzero_no_file",
            "OdeVerif.C16.written_iff_all_succeeded", "OdeVerif.C16.resultName_spec", "OdeVerif.C16.resultName_last_extension_only",
            "OdeVerif.C16.resultName_no_extension", "OdeVerif.C16.resultName_dot_in_directory",
            "OdeVerif.Refine.cli_keywords_pass_through", "OdeVerif.Refine.cli_arguments_as_modelled", "OdeVerif.Refine.cli_preserve_normalisation_as_modelled", "OdeVerif.Refine.cli_result_stem_as_modelled", "OdeVerif.Refine.cli_steps_as_modelled"]
LEVEL = "proof"


def gen_case(rng, i):
    kind = ["ok", "ok", "ok", "missing-file", "bad-json", "malformed-system", "ok", "no-dynamics"][i % 8]
    g = systems.gen_system(rng, shape=rng.choice(["isolated", "offset_single", "mixed_nonlinear", "numeric_dep_analytic"]), with_params=rng.choice(["none", "all"]))
    ind = g["indict"]
    if kind == "no-dynamics":
        ind = rng.choice([{}, {"parameters": {"tau": "1"}}, {"options": {"sim_time": "0.1"}, "parameters": {"a": "2"}}])
    if kind == "malformed-system":
        d = ind["dynamics"][0]
        how = rng.choice(["no-initial-value", "syntax-error", "unknown-option", "higher-order-inhomogeneous", "two-equals"])
        if how == "no-initial-value":
            d.pop("initial_value", None)
            d.pop("initial_values", None)
        elif how == "syntax-error":
            d["expression"] = d["expression"] + " +"
        elif how == "unknown-option":
            ind["options"] = {"no_such_option": "1"}
        elif how == "higher-order-inhomogeneous":
            ind["dynamics"] = [{"expression": "x'' = -x - 2*x' + 1", "initial_values": {"x": "0", "x'": "0"}}]
        else:
            d["expression"] = d["expression"] + " = 0"
    if kind == "ok" and rng.random() < 0.35:
        # values given with their natural JSON types (numbers, not quoted strings) wherever the API accepts them: the file must reach
        # analysis() as the same dictionary json.load gives
        ind["options"] = dict(ind.get("options", {}), **rng.choice([{"expression_simplification_threshold": rng.choice([10, 500, 2000])},
                                                                    {"sim_time": 0.05, "max_step_size": 0.01}, {"integration_accuracy_abs": 1e-8},
                                                                    {"expression_simplification_threshold": 1000, "sim_time": 0.1}]))
    names = [d["expression"].split("=")[0].strip() for d in ind.get("dynamics", [])]
    first = [n[:-1] for n in names if n.count("'") == 1]
    argv = ["--disable-stiffness-check"]           # PyGSL is absent: without it every run fails the same way in API and CLI (also exercised below)
    flags = {"disable_stiffness_check": True}
    if rng.random() < 0.12:
        argv, flags = [], {"disable_stiffness_check": False}
    if rng.random() < 0.4:
        argv.append("--disable-analytic-solver")
        flags["disable_analytic_solver"] = True
    r = rng.random()
    if r < 0.25:
        argv.append("--preserve-expressions")
        flags["preserve_expressions"] = True
    elif r < 0.45 and first:
        sel = rng.sample(first, rng.randint(1, len(first)))
        argv += ["--preserve-expressions"] + sel
        flags["preserve_expressions"] = sel
    elif r < 0.5:
        argv += ["--preserve-expressions", "no_such_variable"]
        flags["preserve_expressions"] = ["no_such_variable"]
    if rng.random() < 0.3:
        lvl = rng.choice(["INFO", "ERROR", "DEBUG"])
        argv += ["--log-level", lvl]
        flags["log_level"] = lvl
    subdir = rng.choice(["", "", "inputs", "data.v2", "a.b/c"])
    stem = rng.choice(["model", "iaf_psc", "my.model.v3", "x"])
    ext = rng.choice([".json", ".json", ".txt", ""])
    # put the file argument first or last
    return {"kind": kind, "indict": ind, "argv": argv, "flags": flags, "subdir": subdir, "fname": stem + ext, "stem_expected": (stem + ext).rsplit(".", 1)[0] if "." in (stem + ext) else stem + ext,
            "file_first": rng.random() < 0.5}


def case_cli(case):
    """the real script in a subprocess (temporary cwd) vs the in-process API on the same dictionary and flags"""
    import odetoolbox
    tb.reset_config()
    tmp = tempfile.mkdtemp(prefix="c16_")
    try:
        rel = os.path.join(case["subdir"], case["fname"]) if case["subdir"] else case["fname"]
        path = os.path.join(tmp, rel)
        os.makedirs(os.path.dirname(path), exist_ok=True)
        if case["kind"] != "missing-file":
            with open(path, "w") as f:
                if case["kind"] == "bad-json":
                    f.write(json.dumps(case["indict"])[:-7] + " ,,")
                else:
                    json.dump(case["indict"], f)
        argv = ([rel] + case["argv"]) if case["file_first"] or any(a == "--preserve-expressions" for a in case["argv"][-1:]) else (case["argv"] + [rel])
        if "--preserve-expressions" in case["argv"] and not (case["file_first"]):
            # a trailing positional after `--preserve-expressions name…` would be swallowed by nargs="*": keep the file first in that case
            argv = [rel] + case["argv"]
        env = dict(os.environ)
        env["PYTHONPATH"] = tb.REPO + os.pathsep + env.get("PYTHONPATH", "")
        p = subprocess.run([sys.executable, os.path.join(tb.REPO, "ode_analyzer.py")] + argv, cwd=tmp, stdout=subprocess.PIPE, stderr=subprocess.PIPE, text=True, timeout=200, env=env)
        produced = sorted(f for f in os.listdir(tmp) if os.path.isfile(os.path.join(tmp, f)) and f.endswith("_result.json"))
        content = None
        if produced:
            with open(os.path.join(tmp, produced[0])) as f:
                raw = f.read()
            try:
                content = json.loads(raw)
            except ValueError:
                content = {"unparseable_result_file": raw[:80], "size": len(raw)}
        api = None
        api_exc = None
        if case["kind"] in ("ok", "malformed-system", "no-dynamics"):
            try:
                api = json.loads(json.dumps(odetoolbox.analysis(json.loads(json.dumps(case["indict"])), **case["flags"])))
            except BaseException as e:
                api_exc = type(e).__name__
        others = sorted(f for f in os.listdir(tmp) if os.path.isfile(os.path.join(tmp, f)) and f != case["fname"])
        return {"rc": p.returncode, "produced": produced, "content": content, "api": api, "api_exc": api_exc, "argv": argv, "stderr_tail": p.stderr[-300:], "other_files": others}
    finally:
        shutil.rmtree(tmp, ignore_errors=True)


def _init_worker():
    tb.import_toolbox()


def _same_expr(a, b):
    """two result strings denote the same expression: equal text, or equal values at two random rational points (SymPy's simplification is
    not reproducible across interpreter processes - hash randomisation - so `(I_e - g_L*g)/C_m` and `I_e/C_m - g_L*g/C_m` are the same answer)"""
    if a == b:
        return True
    try:
        import random
        import sympy
        from harness.core import numeval, refsol
        ea, eb = refsol.parse(str(a)), refsol.parse(str(b))
        syms = sorted(ea.free_symbols | eb.free_symbols, key=str)
        rnd = random.Random(20240611)
        for _ in range(2):
            pt = {x: sympy.Rational(rnd.randint(2, 97), rnd.randint(2, 89)) for x in syms}
            va, vb = numeval.val(ea, pt), numeval.val(eb, pt)
            if va is None or vb is None or not numeval.close(va, vb):
                return False
        return True
    except Exception:
        return False


def _same_content(cli, api):
    """same solvers in the same order, same keys in the same order, same state-variable lists, expression-valued entries equal as expressions"""
    if not isinstance(cli, list) or not isinstance(api, list) or len(cli) != len(api):
        return cli == api
    for a, b in zip(cli, api):
        if not isinstance(a, dict) or not isinstance(b, dict) or list(a.keys()) != list(b.keys()):
            return False
        for k in a:
            if isinstance(a[k], dict) and isinstance(b[k], dict):
                if list(a[k].keys()) != list(b[k].keys()) or not all(_same_expr(a[k][q], b[k][q]) for q in a[k]):
                    return False
            elif a[k] != b[k]:
                return False
    return True


def run(ctx, driver):
    tb.import_toolbox()
    quick = ctx.tier == "quick"
    ctx.rule = ("the real ode_analyzer.py in a subprocess (temporary working directory) on generated files: valid systems, missing file, invalid JSON, malformed system; "
                "all combinations of --disable-analytic-solver / --disable-stiffness-check / --preserve-expressions (absent, bare, names, unknown name) / --log-level; "
                "file in the cwd or in sub-directories (with dots), stems with several dots, with and without extension; distinct = distinct (file, argv); "
                "non-trivial = run that reaches the analysis; a third of the well-formed files give option values with their natural JSON types (numbers)")
    rng = ctx.rng("cli")
    cases = [gen_case(rng, i) for i in range(ctx.n(42, 600))]
    results = pool.run_cases("harness.props.c16", "case_cli", cases, timeout=240, procs=12, init="_init_worker", deadline=ctx.deadline())
    ops = []
    for case, res in zip(cases, results):
        ctx.evaluations += 1
        if res.get("timeout") or res.get("skipped_budget") or res.get("harness_error"):
            ctx.count("skipped")
            if res.get("harness_error"):
                ctx.cov.setdefault("harness_errors", []).append(res["harness_error"][:300])
            continue
        ctx.count("kind:" + case["kind"])
        ctx.count("preserve:" + ("absent" if "--preserve-expressions" not in case["argv"] else "bare" if case["flags"].get("preserve_expressions") is True else "names"))
        if case["kind"] in ("ok", "malformed-system", "no-dynamics"):
            ctx.note_nontrivial(json.dumps([case["indict"], case["argv"], case["subdir"], case["fname"]], sort_keys=True))
        should_succeed = case["kind"] in ("ok", "no-dynamics") and res["api_exc"] is None
        sig = {"kind": case["kind"], "dotted_directory": "." in case["subdir"], "has_extension": "." in case["fname"]}
        want_name = case["stem_expected"] + "_result.json"
        if should_succeed:
            if res["rc"] != 0 or not res["produced"]:
                ctx.fail("cli-failed-where-api-succeeds", _pub(case), {"rc": res["rc"], "produced": res["produced"], "stderr": res["stderr_tail"], "signature": sig})
            else:
                if res["produced"] != [want_name]:
                    ctx.fail("wrong-result-file-name", _pub(case), {"expected": want_name, "observed": res["produced"], "signature": sig})
                if not _same_content(res["content"], res["api"]):
                    ctx.fail("cli-content-differs-from-api", _pub(case), {"signature": sig, "cli": json.dumps(res["content"])[:300], "api": json.dumps(res["api"])[:300]})
        else:
            if res["rc"] == 0 or res["produced"]:
                ctx.fail("failure-not-reported", _pub(case), {"rc": res["rc"], "produced": res["produced"], "api_exception": res["api_exc"], "signature": sig})
        ops.append((case, res, should_succeed))
    ctx.sample({"argv": results[0].get("argv") if isinstance(results[0], dict) else None, "kind": cases[0]["kind"], "rc": results[0].get("rc") if isinstance(results[0], dict) else None})
    if driver is not None and ops:
        payloads = []
        for case, res, ok in ops:
            rel = os.path.join(case["subdir"], case["fname"]) if case["subdir"] else case["fname"]
            pres = None
            if "--preserve-expressions" in case["argv"]:
                pe = case["flags"].get("preserve_expressions")
                pres = [] if pe is True else list(pe)
            payloads.append(("cli", {"infile": rel, "disable_stiffness": "--disable-stiffness-check" in case["argv"], "disable_analytic": "--disable-analytic-solver" in case["argv"],
                                     "preserve": pres, "log_level": case["flags"].get("log_level", "WARN"), "exists": case["kind"] != "missing-file",
                                     "load_ok": case["kind"] != "bad-json", "api_ok": res["api_exc"] is None and case["kind"] in ("ok", "malformed-system", "no-dynamics")}))
        ans = driver.ask(payloads)
        for (case, res, ok), a in zip(ops, ans):
            ctx.count("corr_cli")
            if a.get("outcome") == "wrote":
                good = res["rc"] == 0 and res["produced"] == [a["name"]]
                mf = a["flags"]
                good = good and mf["disable_stiffness_check"] == case["flags"].get("disable_stiffness_check", False) and mf["disable_analytic_solver"] == case["flags"].get("disable_analytic_solver", False) \
                    and mf["preserve_expressions"] == case["flags"].get("preserve_expressions", False) and mf["log_level"] == case["flags"].get("log_level", "WARN")
            else:
                good = res["rc"] != 0 and not res["produced"]
            if not good:
                ctx.tie_break("corr:cli", {"case": _pub(case), "model": a, "impl": {"rc": res["rc"], "produced": res["produced"]}})
    ctx.assumptions += [
        "PARTIAL: argparse (store_true, nargs='*'), the interpreter's exit status for an uncaught exception, json.load/json.dumps and the file system are contracts observed through the subprocess runs, not modelled",
        "PyGSL is absent: runs without --disable-stiffness-check fail identically in API and CLI whenever a numeric solver is needed",
    ]


def _pub(case):
    return {k: case[k] for k in ("kind", "indict", "argv", "subdir", "fname")}


def replay(rp):
    tb.import_toolbox()
    c = dict(rp["failing_input"])
    c.setdefault("flags", {"disable_stiffness_check": "--disable-stiffness-check" in c["argv"]})
    c.setdefault("file_first", True)
    c.setdefault("stem_expected", c["fname"].rsplit(".", 1)[0] if "." in c["fname"] else c["fname"])
    r = case_cli(c)
    print(json.dumps({k: r[k] for k in ("rc", "produced", "argv")}))
    return 0
