"""C07 -- analysis() is a pure function of its arguments."""
import json
import os
import subprocess
import sys

from harness.core import pool, tb
from harness.gen import systems

PROOF_MODULE = ["OdeVerif.Proofs.C07", "OdeVerif.Proofs.RefineConfig", "OdeVerif.Proofs.RefineTesterArgs"]
GENERATED = ['PyConfig', 'Constants', "PyTesterArgs"]
THEOREMS = ["OdeVerif.C07.probe_history_independent", "OdeVerif.C07.run_pointwise", "OdeVerif.C07.unspecified_takes_default",
            "OdeVerif.C07.defaults_documented", "OdeVerif.C07.unknown_option_rejected", "OdeVerif.C07.prefix_history_dependent",
            "OdeVerif.Refine.readGlobalConfig_refines", "OdeVerif.Refine.analysisPrologue_refines", "OdeVerif.Refine.analysisPrologue_ignores_store",
            "OdeVerif.Refine.testerKwargs_numeric", "OdeVerif.Refine.testerKwargs_options_block_irrelevant"]
LEVEL = "proof"

OPTION_MENU = [("input_time_symbol", ["s", "time", "T"]), ("output_timestep_symbol", ["dt", "h_step"]), ("differential_order_symbol", ["_D", "__prime"]),
               ("simplify_expression", ["sympy.expand(expr)", "expr"]), ("sim_time", ["0.05"]), ("max_step_size", ["0.01"]),
               ("integration_accuracy_abs", ["1E-9"]), ("expression_simplification_threshold", ["500"])]


def run_fresh(calls, hashseed=None, timeout=100, standin=False):
    standin = standin or any(not c.get("flags", {}).get("disable_stiffness_check", False) for c in calls)
    env = dict(os.environ)
    env["PYTHONPATH"] = tb.VERIF + os.pathsep + tb.REPO + os.pathsep + env.get("PYTHONPATH", "")
    if hashseed is not None:
        env["PYTHONHASHSEED"] = str(hashseed)
    p = subprocess.run([sys.executable, os.path.join(tb.VERIF, "harness", "core", "c07_runner.py")], input=json.dumps({"calls": calls, "standin": standin}),
                       stdout=subprocess.PIPE, stderr=subprocess.PIPE, text=True, timeout=timeout, env=env, cwd=tb.REPO)
    if p.returncode != 0 or not p.stdout.strip():
        return {"runner_error": p.stderr[-500:]}
    return json.loads(p.stdout.strip().split("\n")[-1])


def case_history(case):
    out = {"history": run_fresh(case["calls"], hashseed=case.get("hashseed_hist", 0))}
    out["probe_alone"] = {hs: run_fresh([case["calls"][-1]], hashseed=hs) for hs in [case.get("hashseed_hist", 0)] + list(case["hashseeds"])}
    return out


STIFF_SYSTEMS = [
    {"dynamics": [{"expression": "x'' = -x**3 - x'/tau", "initial_values": {"x": "1", "x'": "0"}}], "parameters": {"tau": "0.05"}},
    {"dynamics": [{"expression": "V' = -V/tau + I*(1 - V**2)", "initial_value": "0"}, {"expression": "I' = -I/tau_s", "initial_value": "1"}],
     "parameters": {"tau": "0.01", "tau_s": "0.002"}},
]


def gen_stiff_call(rng, variant=None):
    """a call with the stiffness test ENABLED (PyGSL stand-in) and a stimuli block that names a derivative, or a target twice"""
    ind = json.loads(json.dumps(rng.choice(STIFF_SYSTEMS)))
    names = [d["expression"].split("=")[0].strip() for d in ind["dynamics"]]
    base = names[0].replace("'", "")
    targets = [[base + "'", base, base + "'"], [base + "'"], [base, base]][rng.randrange(3)] if names[0].count("'") == 2 else [[base, base], [base]][rng.randrange(2)]
    if (variant is None and rng.random() < 0.5) or (variant is not None and variant % 3 == 2):
        ind["stimuli"] = [{"type": "regular", "rate": "200.", "variables": list(targets)}]
        if rng.random() < 0.5:
            ind["stimuli"].append({"type": "list", "list": "3E-3 7E-3", "variables": [targets[0]]})
        ind["options"] = {"sim_time": "0.02", "max_step_size": "0.005"}
    else:
        # a sparse stimulus and an options block that is absent or names only some of the stiffness-test options: the others take their
        # documented defaults (sim_time 100E-3, max_step_size 999)
        ind["stimuli"] = [{"type": "list", "list": "3E-3 7E-3", "variables": list(targets)}]
        menu = [None, {"max_step_size": "0.05"}, {"sim_time": "0.2"}, {"integration_accuracy_abs": "1E-8"}, {"output_timestep_symbol": "hh"}]
        opts = rng.choice(menu) if variant is None else menu[(variant // 3) % len(menu)] if variant % 3 == 1 else None
        if opts is not None:
            ind["options"] = opts
    return {"indict": ind, "flags": {}, "kind": "stiffness-checked"}


def gen_call(rng, kind=None):
    kind = kind or rng.choice(["plain", "plain", "options", "options", "simplify-arg", "flags", "failing", "bad-option", "empty", "function", "function",
                               "option-named", "option-named"])
    if kind == "option-named":
        # default options, and a state variable / parameter whose NAME is a value that other calls of the history pass as an option
        # (time symbol, step symbol, ...): whatever those calls registered under that name must be gone
        nm, pn = rng.sample(["s", "time", "dt", "h_step", "zz", "hh", "T"], 2)
        dyn = [{"expression": "%s' = -%s / tau_q + %s" % (nm, nm, pn), "initial_value": "1"}]
        if rng.random() < 0.5:
            dyn.append({"expression": "V_m' = -V_m / tau_m + %s" % nm, "initial_value": "0"})
        return {"indict": {"dynamics": dyn}, "flags": {"disable_stiffness_check": True}, "kind": "option-named"}
    if kind == "function":
        # a function-of-time entry; the same text may recur in other calls of the history with another time symbol / marker
        tsym = rng.choice(["t", "t", "s", "time"])
        f = rng.choice(["(e / tau) * %s * exp(-%s / tau)", "exp(-%s / tau)", "%s * exp(-2 * %s)"])
        f = f.replace("%s", "TT")
        ind = {"dynamics": [{"expression": "I_k = " + f.replace("TT", rng.choice(["t", "s"]))}, {"expression": "V' = -V / tau_m + I_k", "initial_value": "0"}]}
        opts = {}
        if tsym != "t":
            opts["input_time_symbol"] = tsym
        if rng.random() < 0.3:
            opts["differential_order_symbol"] = rng.choice(["_D", "__d"])
        if opts:
            ind["options"] = opts
        return {"indict": ind, "flags": {"disable_stiffness_check": True}, "kind": "function"}
    g = systems.gen_system(rng, shape=rng.choice(["isolated", "offset_single", "mixed_nonlinear", "numeric_dep_analytic", "isolated"]),
                           with_params=rng.choice(["none", "all", "partial", "empty"]))
    ind = g["indict"]
    if "parameters" not in ind and rng.random() < 0.5:
        ind["parameters"] = {}          # a parameters block that is present but empty is valid input
    flags = {"disable_stiffness_check": True}
    if kind == "options":
        opts = {}
        for k, vals in rng.sample(OPTION_MENU, rng.choice([1, 2, 3])):
            opts[k] = rng.choice(vals)
        ind["options"] = opts
    elif kind == "simplify-arg":
        flags["simplify_expression"] = rng.choice(["sympy.expand(expr)", "sympy.factor(expr)"])
    elif kind == "flags":
        flags[rng.choice(["disable_analytic_solver"])] = True
        if rng.random() < 0.5:
            flags["preserve_expressions"] = True
    elif kind == "failing":
        ind["dynamics"][0]["expression"] = ind["dynamics"][0]["expression"] + " = 1"
    elif kind == "bad-option":
        ind["options"] = {"output_timestep_symbol": "hh", "no_such_option": "1"}
    elif kind == "empty":
        ind = {"options": {"output_timestep_symbol": "zz"}} if rng.random() < 0.5 else {}
    return {"indict": ind, "flags": flags, "kind": kind}


def model_call(c):
    ind = c["indict"]
    m = {"has_dynamics": "dynamics" in ind}
    if "options" in ind:
        m["options"] = [[k, v if isinstance(v, str) else repr(v)] for k, v in ind["options"].items()]
    if c["flags"].get("simplify_expression"):
        m["simplify"] = c["flags"]["simplify_expression"]
    return m


def reset_policy_from_source():
    import ast
    with open(os.path.join(tb.REPO, "odetoolbox", "__init__.py")) as f:
        tree = ast.parse(f.read())
    for node in ast.walk(tree):
        if isinstance(node, ast.FunctionDef) and node.name == "_analysis":
            for st in node.body:
                src = ast.unparse(st)
                if src.startswith("Config.reset()"):
                    return True
                if "_read_global_config" in src:
                    return False
    return False


def run(ctx, driver):
    tb.import_toolbox()
    quick = ctx.tier == "quick"
    ctx.rule = ("random histories of 1-4 analysis() calls (plain, with options blocks, with a simplify_expression argument, with other flags, failing on malformed "
                "input, failing on an unknown option after a valid one, without dynamics, stiffness-checked through the PyGSL stand-in with a stimuli block) followed by a probe call, all in one fresh interpreter, vs the probe alone in "
                "fresh interpreters under 2 PYTHONHASHSEED values; distinct = distinct histories; non-trivial = history contains a call that writes an option or fails; "
                "for stiffness-checked calls (options block absent / partial / full) the stand-in records how far the test simulated and the largest step it requested: "
                "every unspecified option must show its documented default")
    rng = ctx.rng("hist")
    cases = [c["case"] for c in ctx.corpus() if "case" in c and "calls" in c["case"]]
    for i in range(ctx.n(40, 400)):
        hist = [gen_call(rng) for _ in range(rng.choice([1, 2, 3, 4]))]
        probe = gen_call(rng, kind=rng.choice(["plain", "plain", "options", "flags", "function", "function"]))
        if i % 5 == 3:
            # targeted: some call of the history passes a symbol-valued option; the probe (default options) uses that very
            # name for a state variable or a parameter -- nothing registered under the name may survive the call
            opt = rng.choice(["input_time_symbol", "input_time_symbol", "output_timestep_symbol", "differential_order_symbol"])
            val = rng.choice(["s", "time", "T", "dt", "zz"])
            if opt == "input_time_symbol" and rng.random() < 0.6:
                carrier = {"indict": {"dynamics": [{"expression": "I_k = exp(-%s / tau)" % val}, {"expression": "V' = -V / tau_m + I_k", "initial_value": "0"}]},
                           "flags": {"disable_stiffness_check": True}, "kind": "function"}
            else:
                carrier = gen_call(rng, kind="plain")
            carrier["indict"].setdefault("options", {})[opt] = val
            hist.insert(rng.randrange(len(hist) + 1), carrier)
            other = rng.choice([q for q in ["s", "time", "T", "dt", "zz", "k_p"] if q != val])
            nm, pn = (val, other) if rng.random() < 0.6 else (other, val)
            dyn = [{"expression": "%s' = -%s / tau_q + %s" % (nm, nm, pn), "initial_value": "1"}]
            if rng.random() < 0.5:
                dyn.append({"expression": "V_m' = -V_m / tau_m + %s" % nm, "initial_value": "0"})
            probe = {"indict": {"dynamics": dyn}, "flags": {"disable_stiffness_check": True}, "kind": "option-named"}
        if i % 8 == 2:
            # a mixed system: two analytically solved variables enter a numerically solved one with DIFFERENT weights (any pairing of weights and
            # variables that goes through a set must not depend on hash randomisation)
            w1, w2 = rng.sample(["2", "-5", "3", "-1/2", "7"], 2)
            n1, n2 = rng.sample(["I_ex", "I_in", "g_a", "q_b", "zeta"], 2)
            probe = {"indict": {"dynamics": [{"expression": "V_m' = -V_m**3/tau_m + %s*%s + %s*%s" % (w1, n1, w2, n2), "initial_value": "0"},
                                             {"expression": "%s' = -%s/tau_1" % (n1, n1), "initial_value": "1"},
                                             {"expression": "%s' = -%s/tau_2" % (n2, n2), "initial_value": "2"}]},
                     "flags": {"disable_stiffness_check": True}, "kind": "mixed-fan-in"}
        if i % 8 == 6:
            # a stiffness-checked call (stand-in for PyGSL) with a stimuli block: as a member of the history or as the probe
            sc = gen_stiff_call(rng, variant=i // 8)
            if rng.random() < 0.5:
                hist.insert(rng.randrange(len(hist) + 1), sc)
            else:
                probe = sc
        cases.append({"calls": hist + [probe], "hashseeds": ([1, 4242] if quick else [1, 4242, 77, 123456]) + ([3, 8, 10] if probe.get("kind") == "mixed-fan-in" else [])})
    resets = reset_policy_from_source()
    ctx.cov["resets_first_from_source"] = resets
    if not resets:
        ctx.tie_break("hypothesis:probe_history_independent", "the source does not call Config.reset() before reading the options (policy `fixed` not met)")
    results = pool.run_cases("harness.props.c07", "case_history", cases, timeout=320, procs=12, deadline=ctx.deadline())
    ops = []
    for case, res in zip(cases, results):
        ctx.evaluations += 1
        if res.get("timeout") or res.get("skipped_budget") or res.get("harness_error") or "runner_error" in res.get("history", {}):
            ctx.count("skipped")
            ctx.cov.setdefault("runner_errors", []).append(str(res)[:300])
            if res.get("harness_error") and "TimeoutExpired" not in res["harness_error"]:
                ctx.cov.setdefault("harness_errors", []).append(res["harness_error"][:300])
            continue
        kinds = [c["kind"] for c in case["calls"]]
        for k in kinds[:-1]:
            ctx.count("hist_call:" + k)
        if any(k in ("options", "simplify-arg", "failing", "bad-option", "empty") for k in kinds[:-1]):
            ctx.note_nontrivial(json.dumps(case["calls"], sort_keys=True))
        hist = res["history"]["calls"]
        last = hist[-1]
        written = sorted({k for c in case["calls"][:-1] for k in c["indict"].get("options", {})} | ({"simplify_expression"} if any(c["flags"].get("simplify_expression") for c in case["calls"][:-1]) else set()))
        for hs, alone in res["probe_alone"].items():
            if "runner_error" in alone:
                ctx.count("skipped_probe")
                continue
            a = alone["calls"][0]
            if (a.get("result"), a.get("exception")) != (last.get("result"), last.get("exception")):
                ctx.fail("result-depends-on-history", {"calls": case["calls"]},
                         {"probe_after_history": _brief(last), "probe_in_fresh_interpreter": _brief(a), "options_written_by_history": written,
                          "signature": {"site": "Config", "leak": True}})
                break
        # the option state left behind must not depend on the history either; when it does, search for an input-visible effect:
        # the literal result strings of the probe (same PYTHONHASHSEED) after the history vs. first in a fresh interpreter
        same_seed = res["probe_alone"].get(case.get("hashseed_hist", 0)) or res["probe_alone"].get(str(case.get("hashseed_hist", 0)))
        if same_seed and "runner_error" not in same_seed:
            a0 = same_seed["calls"][0]
            if a0["config"] != last["config"]:
                leaked = sorted(k for k in last["config"] if last["config"][k] != a0["config"].get(k))
                if a0.get("raw") != last.get("raw"):
                    ctx.fail("result-depends-on-history", {"calls": case["calls"]},
                             {"what": "option state leaks and changes the returned expressions", "leaked_options": leaked,
                              "probe_after_history": json.dumps(last.get("raw"))[:400], "probe_in_fresh_interpreter": json.dumps(a0.get("raw"))[:400],
                              "signature": {"site": "Config", "leak": True, "raw": True}})
                else:
                    ctx.tie_break("option-state-depends-on-history", {"leaked_options": leaked, "calls": [c["indict"].get("options") for c in case["calls"]]})
        vals = [json.dumps(a["calls"][0].get("result"), sort_keys=True) for a in res["probe_alone"].values() if "runner_error" not in a]
        if len(set(vals)) > 1:
            ctx.fail("result-depends-on-hash-seed", {"calls": case["calls"][-1:]}, {"signature": {"site": "PYTHONHASHSEED"}})
        for c, h in zip(case["calls"], hist):
            sr = h.get("stiffness_run")
            if sr and c["kind"] == "stiffness-checked":
                ctx.count("stiffness_run_observed")
                d = tb._DEFAULTS()
                o = c["indict"].get("options", {})
                want_T = float(o.get("sim_time", d["sim_time"]))
                want_h = float(o.get("max_step_size", d["max_step_size"]))
                if abs(sr["t_end"] - want_T) > 1e-9 * max(1.0, want_T) or sr["h_max"] > want_h * (1 + 1e-12):
                    ctx.fail("unspecified-option-does-not-take-documented-default", {"calls": [c]},
                             {"options_given": o, "documented_defaults": {"sim_time": d["sim_time"], "max_step_size": d["max_step_size"]},
                              "stiffness_test_simulated_to": sr["t_end"], "largest_step_requested": sr["h_max"],
                              "signature": {"site": "stiffness-test options", "options_block": "absent" if "options" not in c["indict"] else "partial"}})
            if not h["input_unmodified"]:
                ctx.fail("input-dictionary-modified", {"calls": [c]}, {"signature": {"site": "indict"}})
                break
        ops.append((case, hist))
    ctx.sample({"history_kinds": [c["kind"] for c in cases[-1]["calls"]], "probe": cases[-1]["calls"][-1]["indict"]})
    if driver is not None and ops:
        ans = driver.ask([("config-run", {"resets_first": resets, "calls": [model_call(c) for c in case["calls"]]}) for case, _ in ops])
        for (case, hist), a in zip(ops, ans):
            ctx.count("corr_config-run")
            mc = a.get("calls")
            if mc is None or len(mc) != len(hist):
                ctx.tie_break("corr:config-run", {"model": a})
                continue
            for i, (m, h, c) in enumerate(zip(mc, hist, case["calls"])):
                store = {k: v for k, v in m["store"]}
                want_exc = {"empty": None, "bad-option": "AssertionError"}.get(m["outcome"], "any")
                ok = store == h["config"]
                if m["outcome"] == "bad-option":
                    ok = ok and h.get("exception") == "AssertionError"
                if m["outcome"] == "empty":
                    ok = ok and h.get("result") == []
                if not ok:
                    ctx.tie_break("corr:config-run", {"call_index": i, "call": c["indict"].get("options"), "model": m, "impl_config": h["config"], "impl_exception": h.get("exception")})
                    break
    ctx.assumptions += [
        "the analysis proper is an abstract function of (effective options, input, flags) in the model; that the real code reads options only through Config is checked by the fresh-interpreter oracle, not proved",
        "input immutability and independence of PYTHONHASHSEED are runtime facts no pure model can exhibit: checked by the oracle only (deep equality of indict; canonical mathematical content under 2-4 hash seeds)",
        "documentation gives 1E-9 for the integration accuracies, the code 1E-6: recorded as a documentation discrepancy, not judged",
    ]


def _brief(rec):
    if rec.get("exception"):
        return {"exception": rec["exception"]}
    r = rec.get("result") or []
    return [{"solver": s["solver"], "state_variables": s["state_variables"], "symbols": sorted({x for e in s["exprs"].values() for x in e.get("symbols", [])})} for s in r]


def replay(rp):
    tb.import_toolbox()
    calls = rp["failing_input"]["calls"]
    a = run_fresh(calls)
    b = run_fresh(calls[-1:])
    same = a["calls"][-1].get("result") == b["calls"][0].get("result")
    print("after history:", json.dumps(_brief(a["calls"][-1])), "\nfresh:", json.dumps(_brief(b["calls"][0])), "\nsame:", same)
    bad = not same
    for c, h in zip(calls, a["calls"]):
        if not h.get("input_unmodified", True):
            print("input dictionary modified by the call")
            bad = True
        sr = h.get("stiffness_run")
        if sr:
            d = tb._DEFAULTS()
            o = c["indict"].get("options", {})
            want_T, want_h = float(o.get("sim_time", d["sim_time"])), float(o.get("max_step_size", d["max_step_size"]))
            print("stiffness test simulated to", sr["t_end"], "(expected", want_T, "), largest step requested", sr["h_max"], "(bound", want_h, ")")
            if abs(sr["t_end"] - want_T) > 1e-9 * max(1.0, want_T) or sr["h_max"] > want_h * (1 + 1e-12):
                bad = True
    return 1 if bad else 0
