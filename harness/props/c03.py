"""C03 -- solver partition is an exact cover; analytic membership is sound and closed."""
import json
import re

from harness.core import pool, tb
from harness.gen import systems
from harness.props import _shared

PROOF_MODULE = ["OdeVerif.Proofs.C03", "OdeVerif.Proofs.ReachSpec", "OdeVerif.Proofs.RefineGraph", "OdeVerif.Proofs.PipelineGraph", "OdeVerif.Proofs.RefineDemote", "OdeVerif.Proofs.RefinePartition", "OdeVerif.Proofs.RefineGlue", "OdeVerif.Proofs.RefineContracts"]
GENERATED = ["PyGraph", "PyDemote", "PyPartition", "PyGlue", "PyInitialValues", "PyContracts"]
THEOREMS = ["OdeVerif.C03.propagate_terminates", "OdeVerif.C03.verdict_total", "OdeVerif.C03.propagate_below", "OdeVerif.C03.propagate_closed",
            "OdeVerif.C03.propagate_greatest", "OdeVerif.C03.analytic_sound", "OdeVerif.C03.analytic_closed",
            "OdeVerif.C03.tractable_recognised", "OdeVerif.ReachSpec.graph_reach_iff", "OdeVerif.ReachSpec.sccSize_spec", "OdeVerif.C03.partition_exact_cover", "OdeVerif.C03.verdict_perm_invariant",
            "OdeVerif.Refine.dependencyEdges_spec", "OdeVerif.Refine.mem_dependencyEdges", "OdeVerif.Refine.propagate_refines", "OdeVerif.Refine.verdict_refines",
            "OdeVerif.PipelineSpec.analyse_verdict_some", "OdeVerif.PipelineSpec.analyse_partition", "OdeVerif.PipelineSpec.analyse_analytic_closed", "OdeVerif.PipelineSpec.analyse_analytic_linear",
            "OdeVerif.Refine.demote_refines", "OdeVerif.Refine.demote_above", "OdeVerif.Refine.demote_eligible", "OdeVerif.Refine.findAnalytic_refines", "OdeVerif.Refine.findAnalytic_total",
            "OdeVerif.Refine.solverPartition_requests", "OdeVerif.Refine.solverPartition_disabled",
            "OdeVerif.Refine.getLinCcSymbols_lookup", "OdeVerif.Refine.getLinCcSymbols_of_distinct", "OdeVerif.Refine.findInMatrix_refines", "OdeVerif.Refine.findPos_some",
            "OdeVerif.Refine.findPos_none_iff", "OdeVerif.Refine.findPos_column_distinct", "OdeVerif.Refine.shapeOrderFromSystemMatrix_refines",
            "OdeVerif.Refine.getConnectedSymbols_refines", "OdeVerif.Refine.self_mem_getConnectedSymbols", "OdeVerif.Refine.shapeOrder_eq_length_connected",
            "OdeVerif.Refine.isZero_refines"]
LEVEL = "proof"


def gen_cases(ctx, n, full_every=6):
    rng = ctx.rng("systems")
    cases = []
    for c in ctx.corpus():
        if "case" in c:
            cases.append(dict(c["case"], corpus=c["_file"]))
    i = 0
    while len(cases) < n:
        shape = systems.SHAPES[i % len(systems.SHAPES)]
        g = systems.gen_system(rng, shape=shape)
        k = len(g["indict"]["dynamics"])
        if k > 1 and rng.random() < 0.5:
            perm = list(range(k))
            rng.shuffle(perm)
            g["indict"]["dynamics"] = [g["indict"]["dynamics"][p] for p in perm]
        g["stop"] = (i % full_every) != 0
        if i % 7 == 3:
            # every variable must still be in exactly one solver when the analytic solver is switched off (complete run: the cover is judged on the result)
            g["flags"] = {"disable_analytic_solver": True}
            g["stop"] = False
        cases.append(g)
        i += 1
    return cases


def check_graph_correspondence(ctx, driver, cases, results, opname="verdict"):
    """model vs traced real verdict stages and symbol lists"""
    ops = []
    for case, res in zip(cases, results):
        if not isinstance(res, dict) or "graph" not in res or "verdict2" not in res:
            continue
        ops.append((case, res))
    if driver is None or not ops:
        return
    ans = driver.ask([("verdict", r["graph"]) for _, r in ops])
    for (case, r), a in zip(ops, ans):
        ctx.count("corr_verdict")
        x = r["x"]
        ok = a.get("eligible") == r["verdict1"] and a.get("verdict") == r["verdict2"]
        subs = r.get("sub_symbols") or []
        ana = [x[i] for i in a.get("analytic", [])]
        num = [x[i] for i in a.get("numeric", [])]
        if not case.get("flags", {}).get("disable_analytic_solver"):
            want = ([ana] if ana else []) + ([num] if num else [])
            # get_sub_system is called with the symbol lists; compare as sets in x-order
            got = [[v for v in x if v in set(s)] for s in subs]
            if r.get("stopped") or r.get("error"):
                want = want[:len(got)]      # the run was cut before the numeric sub-system was requested
            ok = ok and got == want
        if not ok:
            ctx.tie_break("corr:verdict", {"case": case["indict"], "model": a, "impl": {k: r.get(k) for k in ("verdict0", "verdict1", "verdict2", "sub_symbols")}})


def expected_state_vars(indict, marker):
    out = []
    for dyn in indict["dynamics"]:
        lhs = dyn["expression"].split("=")[0].strip()
        order = lhs.count("'")
        name = lhs.replace("'", "")
        out += [name + marker * k for k in range(order)]
    return out


def symbols_in(expr_str):
    return set(re.findall(r"[A-Za-z_][A-Za-z0-9_]*", expr_str))


def oracle_partition(ctx, case, res):
    """cover / soundness / closure on what the code did (result when available, else the traced partition)"""
    marker = res["marker"]
    want_vars = expected_state_vars(case["indict"], marker)
    truth = res.get("truth")
    sig = {"shape": case.get("shape")}
    if "solvers" in res:
        allv = [v for s in res["solvers"] for v in s["state_variables"]]
        if sorted(allv) != sorted(want_vars):
            ctx.fail("not-exact-cover", case["indict"], {"expected": sorted(want_vars), "observed": allv, "signature": dict(sig, what="cover")})
            return
        analytic = [v for s in res["solvers"] if s["solver"] == "analytical" for v in s["state_variables"]]
        numeric = [v for s in res["solvers"] if s["solver"].startswith("numeric") for v in s["state_variables"]]
        for s in res["solvers"]:
            if s["solver"] == "analytical":
                for v, e in s["update_expressions"].items():
                    bad = symbols_in(e) & set(numeric)
                    if bad:
                        ctx.fail("analytic-update-mentions-numeric", case["indict"], {"variable": v, "mentions": sorted(bad), "expr": e[:200], "signature": dict(sig, what="update closure")})
    elif res.get("stopped") and res.get("sub_symbols") is not None and "verdict2" in res:
        analytic = [v for v, ok in zip(res["x"], res["verdict2"]) if ok]
        numeric = [v for v, ok in zip(res["x"], res["verdict2"]) if not ok]
        if sorted(res["x"]) != sorted(want_vars):
            ctx.fail("not-exact-cover", case["indict"], {"expected": sorted(want_vars), "observed": res["x"], "signature": dict(sig, what="cover")})
            return
    else:
        return None
    if truth:
        for v in analytic:
            if not truth["lin"].get(v, False):
                tdep = "t" in symbols_in(truth["offset"].get(v, "")) or any("t" in symbols_in(str(case["indict"]["dynamics"][k]["expression"].split("=")[1])) for k in range(len(case["indict"]["dynamics"])) if case["indict"]["dynamics"][k]["expression"].split("=")[0].strip().replace("'", "") == v.replace(marker, ""))
                ctx.fail("analytic-not-linear-constant-coefficient", case["indict"],
                         {"variable": v, "reason": "independent differential criterion fails (second derivatives w.r.t. state variables non-zero, or coefficients/remainder contain state variables or t)",
                          "signature": dict(sig, what="soundness", time_dependent=bool(tdep))})
            for d in truth["deps"].get(v, []):
                if d in numeric:
                    ctx.fail("analytic-depends-on-numeric", case["indict"], {"variable": v, "depends_on": d, "signature": dict(sig, what="closure")})
    return analytic, numeric


def run(ctx, driver):
    tb.import_toolbox()
    quick = ctx.tier == "quick"
    ctx.rule = ("typed generator: 17 coupling shapes (isolated, chain, fan-in/out, cycle, antisymmetric, non-adjacent, offsets in/out of groups, "
                "numeric<->analytic dependence, higher order, nonlinear, explicit time, dense) x random spelling x random entry order; propagators "
                "skipped via the trace for 5 of 6 cases; distinct = distinct input dictionaries; non-trivial = >= 2 state variables or a coupling/offset/nonlinearity")
    cases = gen_cases(ctx, ctx.n(170, 3000))
    results = pool.run_cases("harness.core.cases", "case_partition", cases, timeout=ctx.n(40, 120), init="init_worker", deadline=ctx.deadline())
    for case, res in zip(cases, results):
        ctx.evaluations += 1
        if res.get("timeout") or res.get("skipped_budget"):
            ctx.count("skipped_timeout" if res.get("timeout") else "skipped_budget")
            continue
        if res.get("harness_error"):
            ctx.count("harness_error")
            ctx.cov.setdefault("harness_errors", []).append(res["harness_error"][:200])
            continue
        ctx.count("shape:" + str(case.get("shape")))
        if res.get("error"):
            ctx.count("analysis_error:" + res["error"]["type"])
        if len(res.get("x", [])) >= 2 or case.get("shape") not in ("isolated",):
            ctx.note_nontrivial(json.dumps(case["indict"], sort_keys=True))
        if "verdict2" in res:
            ctx.count("verdict_mix:%d/%d" % (sum(res["verdict2"]), len(res["verdict2"])))
        oracle_partition(ctx, case, res)
    ctx.sample({"indict": cases[-1]["indict"], "shape": cases[-1].get("shape"),
                "verdict": dict(zip(results[-1].get("x", []), results[-1].get("verdict2", []))) if isinstance(results[-1], dict) else None})
    check_graph_correspondence(ctx, driver, cases, results)
    _shared.corr_glue(ctx, driver, cases, results, parts=("lin",))
    ctx.assumptions += [
        "SymPy contracts: _is_zero (expand_mul(x).is_zero) true only for zero; free_symbols exact; scipy connected_components(connection='strong') = SCCs (compared with the model's own closure on every case)",
        "the linear-constant-coefficient judgement of a shape (shapeLin) is an input of the graph model; its own soundness is the split theorem of C02/C04",
    ]


def replay(rp):
    from harness.core import cases
    tb.import_toolbox()
    res = cases.case_partition({"indict": rp["failing_input"], "stop": False})
    print(json.dumps({k: res.get(k) for k in ("x", "verdict0", "verdict1", "verdict2", "error")}, indent=1))
    print("independent:", json.dumps({k: res.get("truth", {}).get(k) for k in ("lin", "expected_analytic")}))
    return 0
