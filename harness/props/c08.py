"""C08 -- returned solver dictionaries are complete, closed and faithful to the input."""
import json

from harness.core import pool, tb
from harness.gen import systems
from harness.props import _shared

PROOF_MODULE = ["OdeVerif.Proofs.C08", "OdeVerif.Proofs.RefinePropagator", "OdeVerif.Proofs.RefineParams", "OdeVerif.Proofs.RefineGlue", "OdeVerif.Proofs.RefineShapesPass", "OdeVerif.Proofs.RefineDictAssembly"]
GENERATED = ["PyPropagator", "PyParams", "PyGlue", "PyInitialValues", "PyShapesPass", "PyDictAssembly"]
THEOREMS = ["OdeVerif.C08.rowSymbols_closed", "OdeVerif.C08.used_propagators_defined", "OdeVerif.C08.diag_propagator_defined",
            "OdeVerif.C08.one_row_per_variable", "OdeVerif.C08.stateName_injective", "OdeVerif.C08.initialValue_found",
            "OdeVerif.C08.listed_iff_referenced", "OdeVerif.C08.prefix_filter_misses_initial_values",
            "OdeVerif.Refine.propagatorSolver_error_iff", "OdeVerif.Refine.propagatorSolver_ok", "OdeVerif.Refine.propagatorSolver_ok_of_model",
            "OdeVerif.Refine.parameterFilter_refines", "OdeVerif.Refine.parameterFilter_none",
            "OdeVerif.Refine.shapeGetInitialValue_refines", "OdeVerif.Refine.shapeGetStateVariables_refines", "OdeVerif.Refine.systemGetInitialValue_refines", "OdeVerif.Refine.initialValueCopy_refines", "OdeVerif.Refine.ivOut_keys", "OdeVerif.Refine.ivOut_value", "OdeVerif.Refine.ivOut_keys_nodup",
            "OdeVerif.Refine.fromJsonToShapes_keys", "OdeVerif.Refine.fromJsonToShapes_time_not_param", "OdeVerif.Refine.fromJsonToShapes_values",
            "OdeVerif.Refine.generateNumericSolver_spec", "OdeVerif.Refine.propagatorSolverDict_spec", "OdeVerif.Refine.solverDict_iv_keys"]
LEVEL = "proof"
FUNCS = [("I_f", "exp(-t/tau_s)"), ("I_f", "(e/tau)*t*exp(-t/tau)")]


def gen_cases(ctx, n):
    rng = ctx.rng("dicts")
    out = [c["case"] for c in ctx.corpus() if "case" in c and "indict" in c["case"]]
    i = 0
    while len(out) < n:
        g = systems.gen_system(rng, shape=systems.SHAPES[i % len(systems.SHAPES)], with_params=rng.choice(["none", "all", "all", "extra", "partial"]))
        ind = g["indict"]
        i += 1
        r = rng.random()
        if r < 0.3 or (g["shape"] in ("const_drift", "offset_single", "chain_from_offset") and r < 0.75):
            ind["options"] = {"output_timestep_symbol": rng.choice(["dt", "h_step", "__res"]), "differential_order_symbol": rng.choice(["__d", "_D", "__prime"])}
        if rng.random() < 0.3 and "parameters" in ind:
            # a parameter referenced only by an initial value
            d = rng.choice(ind["dynamics"])
            if "initial_value" in d:
                d["initial_value"] = "x_init"
                ind["parameters"]["x_init"] = "0.75"
        if rng.random() < 0.3 and ind.get("parameters"):
            # a referenced parameter of tiny magnitude (physical constants in SI units): its listed value must still be the supplied one
            k_ = rng.choice(sorted(ind["parameters"]))
            if k_ in ("E_L", "I_e", "b"):
                ind["parameters"][k_] = rng.choice(["1.380649E-23", "1.602176634E-19", "-4E-21"])
        if rng.random() < 0.15:
            name, f = rng.choice(FUNCS)
            f = systems.in_time_symbol(f, ind)      # the function is one of the CONFIGURED time variable
            ind["dynamics"].append({"expression": "%s = %s" % (name, f)})
            for p in ("tau", "tau_s"):
                if "parameters" in ind and p in f and p not in ind["parameters"]:
                    ind["parameters"][p] = systems.PARAM_VALUES[p]
        flags = {"disable_stiffness_check": True}
        if rng.random() < 0.2:
            flags["disable_analytic_solver"] = True
        out.append({"indict": ind, "flags": flags, "shape": g["shape"], "pt_seed": rng.randrange(10 ** 9)})
    return out


def run(ctx, driver):
    tb.import_toolbox()
    quick = ctx.tier == "quick"
    ctx.rule = ("generated systems (17 shapes) x parameters block none/all/partial/with an unused extra/with a parameter referenced only by an initial value x default or custom "
                "output_timestep_symbol and differential_order_symbol x optional function-of-time entry x disable_analytic_solver; every returned dictionary checked; "
                "distinct = distinct inputs; non-trivial = result with >= 2 state variables or two solvers; incl. non-autonomous equations (no propagator and no analytic update expression may name the configured time symbol), values printed in exponent notation, names from the marker's alphabet; a second, traced run per input feeds the glue correspondence (initial-value copy, SystemOfShapes.get_initial_value per state variable)")
    cases = gen_cases(ctx, ctx.n(110, 2000))
    results = pool.run_cases("harness.core.cases", "case_dict", cases, timeout=ctx.n(50, 120), init="init_worker", deadline=ctx.deadline())
    for case, res in zip(cases, results):
        ctx.evaluations += 1
        if not _shared.usable(ctx, res):
            continue
        if res.get("error"):
            ctx.count("analysis_error:" + res["error"])
            continue
        ctx.count("dicts_checked", res["n_solvers"])
        for k in res["kinds"]:
            ctx.count("solver:" + str(k))
        if res["nvars"] >= 2 or res["n_solvers"] >= 2:
            ctx.note_nontrivial(json.dumps(case["indict"], sort_keys=True))
        if res["problems"]:
            p0 = res["problems"][0]
            ctx.fail("dictionary-" + p0["what"].replace(" ", "-")[:60], {"indict": case["indict"], "flags": case["flags"]},
                     {"problems": res["problems"][:5], "signature": {"what": p0["what"], "only_iv": p0.get("referenced_only_by_initial_values")}})
    ctx.sample({"indict": cases[-1]["indict"], "result_kinds": results[-1].get("kinds") if isinstance(results[-1], dict) else None})
    _shared.corr_glue(ctx, driver, cases, results, parts=("iv",))
    ctx.assumptions += [
        "naming: the model identifies a propagator symbol with its (row, column) pair; since the F17 fix the implementation extends a name that is already taken, so two pairs never share a symbol (before it, a second-order variable named d did: found by the generators)",
        "numeric equality of listed parameter values and of initial values is checked by evaluation (SymPy's .n() and str are contracts)",
    ]


def replay(rp):
    from harness.core import cases
    tb.import_toolbox()
    fi = rp["failing_input"]
    r = cases.case_dict({"indict": fi["indict"], "flags": fi.get("flags", {"disable_stiffness_check": True}), "pt_seed": 1})
    print(json.dumps(r, indent=1)[:2500])
    return 1 if r.get("problems") else 0
