"""Typed generator of ODE-toolbox inputs: ground truth first, then a random spelling.

Every choice is drawn from the PRNG passed in.  The result carries its own ground truth (which
coefficient of which variable, offsets, non-linear terms) so that oracles never have to trust
the toolbox's own split.
"""
import json

PARAMS = ["tau", "tau_s", "C_m", "g_L", "a", "b", "w", "E_L", "I_e"]
PARAM_VALUES = {"tau": "0.5", "tau_s": "0.25", "C_m": "2", "g_L": "0.75", "a": "1.5", "b": "0.5", "w": "2", "E_L": "-0.5", "I_e": "1.25"}
COEFFS = ["-1/tau", "-1/tau_s", "1/C_m", "-g_L/C_m", "a", "-a*b", "2", "-3", "1/2", "-w**2", "-1", "1", "-2/tau", "b/tau_s", "-1/(tau*C_m)",
          "10", "100", "-10", "1000", "1.0", "-0.5"]
DECAYS = ["-1/tau", "-1/tau_s", "-g_L/C_m", "-a", "-2", "-1/2", "-1", "-2/tau", "-3"]
OFFSETS = ["E_L/tau", "I_e/C_m", "1", "3/2", "I_e", "-E_L*g_L/C_m", "2.5", "E_L + I_e", "I_e/C_m + E_L/tau", "1 + a", "a + b + 1", "E_L - 2*I_e", "42"]
NAMES = ["V_m", "x", "y", "z", "g_ex", "I_in", "u", "q", "r1", "s_2"]
SHAPES = ["isolated", "chain", "fan_in", "fan_out", "cycle", "antisym", "nonadjacent", "offset_single", "offset_in_group",
          "depends_on_offset", "numeric_dep_analytic", "analytic_dep_numeric", "higher_order", "higher_order_offset", "mixed_nonlinear",
          "time_dependent", "dense3", "chain_to_nonlinear", "chain_from_offset", "const_drift", "lin_and_nonlin_same_var", "numeric_reads_derivative", "tiny_literals", "higher_order_driven",
          "tiny_weights", "exact_constants", "sum_coefficients", "second_order_real"]


def nonlinear_term(rng, me, others):
    o = rng.choice(others) if others else me
    return rng.choice([
        "%s*%s" % (me, o), "%s**2" % me, "tanh(%s)" % o, "exp(-%s**2)" % me, "%s/(1 + %s**2)" % (me, o),
        "a*%s*%s" % (me, o), "max(%s, 0)" % o, "min(%s, 1)" % me, "Heaviside(%s)*%s" % (o, me), "%s*%s/tau" % (o, o), "sin(%s)" % me,
    ])


class Truth:
    """x_i^(order_i) = sum_j lin[i][j] * s_j + off[i] + sum nonlin[i] (+ tterm[i]) over state variables s_j"""

    def __init__(self):
        self.entries = []       # dicts: name, order, lin {statevar: coeff str}, off (str|None), nonlin [str], tterm (str|None), iv [str]

    def state_vars(self, marker="'"):
        return [e["name"] + marker * k for e in self.entries for k in range(e["order"])]

    def to_json(self):
        return {"entries": self.entries}


def make_truth(rng, shape=None, n=None):
    shape = shape or rng.choice(SHAPES)
    T = Truth()
    names = rng.sample(NAMES, 4)
    dec = lambda: rng.choice(DECAYS)      # noqa: E731
    cf = lambda: rng.choice(COEFFS)       # noqa: E731

    def ent(name, order=1, lin=None, off=None, nonlin=None, tterm=None):
        iv = [rng.choice(["0", "1", "1/2", "e/tau", "2.5", "-1", "E_L", "2.5E-10", "1E-20", "7E-30", "-3.0E-10"]) for _ in range(order)]
        T.entries.append({"name": name, "order": order, "lin": lin or {}, "off": off, "nonlin": nonlin or [], "tterm": tterm, "iv": iv})
    a, b, c, d = names
    if shape == "isolated":
        for nm in names[:rng.choice([1, 2, 3])]:
            ent(nm, lin={nm: dec()})
    elif shape == "chain":
        k = n or rng.choice([2, 3])
        ns = names[:k]
        for i, nm in enumerate(ns):
            lin = {nm: dec()}
            if i + 1 < k:
                lin[ns[i + 1]] = cf()
            ent(nm, lin=lin)
    elif shape == "fan_in":
        ent(a, lin={a: dec(), b: cf(), c: cf()})
        ent(b, lin={b: dec()})
        ent(c, lin={c: dec()})
    elif shape == "fan_out":
        ent(a, lin={a: dec()})
        ent(b, lin={b: dec(), a: cf()})
        ent(c, lin={c: dec(), a: cf()})
    elif shape == "cycle":
        ent(a, lin={a: dec(), b: rng.choice(["1/2", "a", "1"])})
        ent(b, lin={b: dec(), a: rng.choice(["1/4", "b", "-1/2"])})
    elif shape == "antisym":
        k = rng.choice(["1", "w", "2", "a"])
        ent(a, lin=dict({b: k}, **({a: dec()} if rng.random() < 0.5 else {})))
        ent(b, lin={a: "-" + k if not k.startswith("-") else k[1:], b: dec()})
    elif shape == "nonadjacent":
        ent(a, lin={a: dec(), c: cf()})
        ent(b, lin={b: dec()})
        ent(c, lin={c: dec(), a: rng.choice(["1/3", "-1/2", "b"])})
    elif shape == "offset_single":
        ent(a, lin=({a: dec()} if rng.random() < 0.75 else {}), off=rng.choice(OFFSETS))
        if rng.random() < 0.5:
            ent(b, lin={b: dec()})
    elif shape == "offset_in_group":
        ent(a, lin={a: dec(), b: cf()}, off=rng.choice(OFFSETS))
        ent(b, lin={b: dec(), a: cf()})
    elif shape == "depends_on_offset":
        ent(a, lin={a: dec(), b: cf()})
        ent(b, lin={b: dec()}, off=rng.choice(OFFSETS))
        if rng.random() < 0.5:
            ent(c, lin={c: dec(), a: cf()})
    elif shape == "numeric_dep_analytic":
        ent(a, lin={a: dec()}, nonlin=[nonlinear_term(rng, a, [b])])
        ent(b, lin={b: dec()})
    elif shape == "analytic_dep_numeric":
        ent(a, lin={a: dec(), b: cf()})
        ent(b, lin={b: dec()}, nonlin=[nonlinear_term(rng, b, [])])
        if rng.random() < 0.5:
            ent(c, lin={c: dec()})
    elif shape == "higher_order":
        o = rng.choice([2, 2, 3])
        lin = {a + "'" * k: rng.choice(["-1/tau**2", "-2/tau", "-1", "-3", "-2", "-3/tau_s"]) for k in range(o)}
        ent(a, order=o, lin=lin)
        if rng.random() < 0.5:
            ent(b, lin={b: dec(), a: cf()})
    elif shape == "higher_order_offset":
        ent(a, order=2, lin={a: "-1/tau**2", a + "'": "-2/tau"}, off=rng.choice(OFFSETS))
    elif shape == "mixed_nonlinear":
        ent(a, lin={a: dec()}, off=rng.choice([None, "I_e/C_m"]), nonlin=[nonlinear_term(rng, a, [b]) for _ in range(rng.choice([1, 2]))])
        ent(b, lin={b: dec(), a: cf()})
        ent(c, lin={c: dec()})
    elif shape == "time_dependent":
        if rng.random() < 0.6:
            ent(a, lin={a: dec()}, tterm=rng.choice(["t", "a*t", "sin(t)", "t/tau"]))      # time-dependent forcing
        else:
            ent(a, lin={a: rng.choice(["-t/tau", "-(1 + t)/tau", "-t", "-a*t"])})           # time-dependent coefficient
        ent(b, lin={b: dec()})
        if rng.random() < 0.4:
            ent(c, lin={c: dec(), a: cf()})                                                    # a linear reader of the non-autonomous variable
    elif shape == "higher_order_driven":
        # a linear shape of order 2 or 3 whose highest derivative is driven by a variable of ANOTHER shape that ends up not analytic
        # (nonlinear, or carrying an offset): the verdict has to travel down the shape's own derivative chain
        o = rng.choice([2, 2, 3])
        lin = {a + "'" * k: rng.choice(["-1/tau**2", "-2/tau", "-1", "-3", "-2"]) for k in range(o)}
        lin[b] = cf()
        ent(a, order=o, lin=lin)
        if rng.random() < 0.6:
            ent(b, lin={b: dec()}, nonlin=[nonlinear_term(rng, b, [])])
        else:
            ent(b, lin={b: dec()}, off=rng.choice(OFFSETS))
        if rng.random() < 0.4:
            ent(c, lin={c: dec()})
    elif shape == "tiny_literals":
        # quantities in SI units: a femto-scale offset / drift / self-coupling next to O(1) terms (numeric literals, not parameters)
        k = rng.choice([0, 1, 2])
        if k == 0:
            ent(a, lin={a: dec()}, off=rng.choice(["5E-15", "-2E-15", "4.0E-13"]))
        elif k == 1:
            ent(a, lin={b: cf()}, off=rng.choice(["2E-15", "-5E-15"]))
            ent(b, lin={b: dec()})
        elif k == 2:
            ent(a, lin={a: rng.choice(["-2.5E-15", "-1E-14", "-3E-19"])}, off=rng.choice(["1", "I_e"]))
        if rng.random() < 0.4:
            ent(c, lin={c: dec()})
    elif shape == "second_order_real":
        # a second-order equation with real characteristic roots (always solvable by propagators) and DIFFERENT coefficients for x and x'
        lin = rng.choice([{a: "-1/tau**2", a + "'": "-2/tau"}, {a: "-2", a + "'": "-3"}, {a: "-1/(tau*tau_s)", a + "'": "-1/tau - 1/tau_s"}, {a: "-6", a + "'": "-5"}])
        ent(a, order=2, lin=lin)
        if rng.random() < 0.5:
            ent(b, lin={b: dec(), a + rng.choice(["", "'"]): cf()})
    elif shape == "tiny_weights":
        # particle-count / SI-unit models: a coupling or a nonlinear term whose numeric weight is far below machine epsilon is still a term
        k = rng.choice([0, 1, 2])
        wt = rng.choice(["1.0E-17", "2.5E-19", "-4E-18", "1E-30"])
        if k == 0:
            ent(a, lin={a: dec(), b: wt})                                  # reads a numerically solved variable through a tiny weight
            ent(b, lin={b: dec()}, nonlin=[nonlinear_term(rng, b, [])])
        elif k == 1:
            ent(a, lin={a: dec()}, nonlin=["%s*%s**2" % (wt, a)])           # a tiny but genuine nonlinearity
        else:
            ent(c, lin={c: dec(), a: cf()})                                 # chain on top of the tiny coupling
            ent(a, lin={a: dec(), b: wt})
            ent(b, lin={b: dec()}, nonlin=[nonlinear_term(rng, b, [])])
    elif shape == "exact_constants":
        # no symbolic parameter anywhere: coefficients and offsets written with exact constants SymPy keeps symbolic (e, exp(-1), log(2), 2**(1/2))
        kc = lambda: rng.choice(["-1/e", "-log(2)/10", "-exp(-1)", "-2**(1/2)", "-1/E", "-3"])      # noqa: E731
        ent(a, lin={a: kc()}, off=rng.choice([None, None, "exp(-2)", "log(3)"]))
        if rng.random() < 0.6:
            ent(b, lin={b: kc(), a: rng.choice(["exp(-1)", "log(2)", "1/e", "2"])})
    elif shape == "sum_coefficients":
        # a coefficient that is itself a sum of terms (two leak paths, a rate plus a coupling): every place that re-builds text must parenthesise it
        sc = lambda: rng.choice(["-1/tau - 1/tau_s", "-(1/tau + 1/tau_s)", "-g_L/C_m - a", "-a - b", "-1/tau - 2"])      # noqa: E731
        ent(a, lin={a: sc()})
        r = rng.random()
        if r < 0.4:
            ent(b, lin={b: sc(), a: rng.choice(["1/C_m + a", "a - b", "1/tau + 1/tau_s"])})
        elif r < 0.7:
            ent(b, lin={b: dec(), a: "1/C_m + a"}, nonlin=[nonlinear_term(rng, b, [])])
    elif shape == "chain_to_nonlinear":
        # w <- v <- u, u not analytically solvable (depth >= 2 so that the verdict has to travel)
        ent(a, lin={a: dec(), b: cf()})
        ent(b, lin={b: dec(), c: cf()})
        if rng.random() < 0.5:
            ent(c, lin={c: dec()}, nonlin=[nonlinear_term(rng, c, [])])
        else:
            ent(c, lin={c: dec(), d: cf()})
            ent(d, lin={d: dec()}, nonlin=[nonlinear_term(rng, d, [])])
    elif shape == "chain_from_offset":
        # offset node x; y reads x (documented exception); z, k read y, z: must follow y into the numeric solver
        ent(a, lin={a: dec()}, off=rng.choice(OFFSETS))
        ent(b, lin={b: dec(), a: cf()})
        ent(c, lin={c: dec(), b: cf()})
        if rng.random() < 0.5:
            ent(d, lin={d: dec(), c: cf()})
    elif shape == "const_drift":
        ent(a, lin={}, off=rng.choice(OFFSETS))
        if rng.random() < 0.6:
            ent(b, lin={b: dec()})
    elif shape == "lin_and_nonlin_same_var":
        ent(a, lin={a: dec(), b: cf()}, nonlin=["%s*%s" % (a, b), "%s**2" % a][: rng.choice([1, 2])])
        ent(b, lin={b: dec(), a: cf()}, nonlin=rng.choice([[], ["%s**3" % b]]))
    elif shape == "numeric_reads_derivative":
        # a numerically solved variable reads (linearly) a *derivative* state of an analytically solved higher-order variable
        o = rng.choice([2, 2, 3])
        ent(a, order=o, lin={a + "'" * k: rng.choice(["-1/tau**2", "-2/tau", "-1", "-3", "-2"]) for k in range(o)})
        lin = {b: dec(), a + "'" * rng.randrange(1, o): cf()}
        if rng.random() < 0.5:
            lin[a] = cf()
        ent(b, lin=lin, nonlin=[nonlinear_term(rng, b, [])])
        if rng.random() < 0.4:
            ent(c, order=2, lin={c: "-1", c + "'": "-2", a + "'": cf()}, nonlin=["%s**3" % c])
    elif shape == "dense3":
        for nm in (a, b, c):
            ent(nm, lin={a: cf(), b: cf(), c: cf()})
    T.shape = shape
    return T


def _compound(coeff):
    """does the coefficient contain a `+` or `-` at the top level (outside parentheses, not the leading sign)?  Then it must be parenthesised"""
    depth = 0
    for i, ch in enumerate(coeff):
        if ch == "(":
            depth += 1
        elif ch == ")":
            depth -= 1
        elif ch in "+-" and depth == 0 and i > 0 and coeff[i - 1] not in "*/(eE":
            return True
    return False


def _coef_times(rng, coeff, var):
    """a spelling of coeff*var"""
    if _compound(coeff):
        return ("(%s)*%s" % (coeff, var)) if rng.random() < 0.5 else ("%s*(%s)" % (var, coeff))
    if coeff == "1":
        return rng.choice([var, "1*" + var, "1.0*" + var])
    if coeff == "-1":
        return rng.choice(["-" + var, "-1*" + var, "-1.*" + var])
    if coeff.startswith("-1/") and rng.random() < 0.6:
        return "-%s/%s" % (var, coeff[3:])
    if coeff.startswith("1/") and rng.random() < 0.6:
        return "%s/%s" % (var, coeff[2:])
    k = rng.random()
    if k < 0.35:
        return "%s*%s" % (coeff if not any(ch in coeff for ch in "+") else "(" + coeff + ")", var)
    if k < 0.7:
        return "%s*(%s)" % (var, coeff)
    return "(%s)*%s" % (coeff, var)


def _floatify(rng, s):
    # integer literals -> float literals with the same value, outside exponents (`**2` must stay an integer power)
    out, i = [], 0
    while i < len(s):
        ch = s[i]
        if ch.isdigit() and (i == 0 or not (s[i - 1].isalnum() or s[i - 1] in "._")):
            j = i
            while j < len(s) and (s[j].isdigit() or s[j] == "."):
                j += 1
            tok = s[i:j]
            prev = s[:i].rstrip()
            if "." not in tok and not prev.endswith("**") and not (j < len(s) and (s[j].isalpha() or s[j] == "_")) and rng.random() < 0.5:
                tok = tok + rng.choice([".0", "."])
            out.append(tok)
            i = j
        else:
            out.append(ch)
            i += 1
    return "".join(out)


def spell(rng, entry, style=None):
    """One spelling of the right-hand side of `entry` (algebraically equal to the ground truth)."""
    style = style or rng.choice(["expanded", "expanded", "factored", "nested", "floats", "shuffled"])
    terms = [_coef_times(rng, c, v) for v, c in entry["lin"].items()]
    if entry["off"]:
        terms.append(entry["off"])
    terms += entry["nonlin"]
    if entry["tterm"]:
        terms.append(entry["tterm"])
    if not terms:
        return "0"
    rng.shuffle(terms)
    name = entry["name"]
    if style == "factored":
        # -(x - E)/tau style when possible, else common factor 1/2*(2*(...))
        self_c = entry["lin"].get(name)
        if self_c and self_c.startswith("-1/") and entry["off"] and "/" not in entry["off"] and not entry["off"].startswith("-"):
            den = self_c[3:]
            rest = [_coef_times(rng, c, v) for v, c in entry["lin"].items() if v != name] + entry["nonlin"] + ([entry["tterm"]] if entry["tterm"] else [])
            # off = off*den/den
            s = "-(%s - (%s)*%s)/%s" % (name, entry["off"], den, den)
            return " + ".join([s] + rest)
        inner = " + ".join("(%s)" % t for t in terms)
        return "(2*(%s))/2" % inner
    if style == "nested":
        s = " + ".join("(%s)" % t for t in terms)
        return rng.choice(["-(-(%s))" % s, "1*((%s)) + 0" % s, "((%s))" % s])
    s = terms[0]
    for t in terms[1:]:
        s += (" - " + t[1:]) if (t.startswith("-") and "(" not in t.split("*")[0] and rng.random() < 0.8) else (" + " + t)
    if style == "floats":
        s = _floatify(rng, s)
    return s


def to_indict(rng, T, style=None, order=None, with_params=None, options=None, param_values=None):
    """Build the ODE-toolbox input dictionary for truth `T`."""
    dyn = []
    for e in T.entries:
        lhs = e["name"] + "'" * e["order"]
        d = {"expression": "%s = %s" % (lhs, spell(rng, e, style))}
        if e["order"] == 1 and rng.random() < 0.7:
            d["initial_value"] = e["iv"][0]
        else:
            ks = list(range(e["order"]))
            if len(ks) > 1 and rng.random() < 0.5:
                # the order in which the initial values are written is not significant: some other order than the ascending one
                ks = ks[::-1] if len(ks) == 2 or rng.random() < 0.5 else ks[1:] + ks[:1]
            d["initial_values"] = {e["name"] + "'" * k: e["iv"][k] for k in ks}
        dyn.append(d)
    if order is not None:
        dyn = [dyn[i] for i in order]
    ind = {"dynamics": dyn}
    used = set()
    blob = json.dumps(dyn)
    for p in PARAMS:
        import re
        if re.search(r"(?<![A-Za-z0-9_])%s(?![A-Za-z0-9_])" % p, blob):
            used.add(p)
    wp = with_params if with_params is not None else rng.choice(["none", "all", "all", "partial", "extra", "empty"])
    pv = dict(PARAM_VALUES)
    if param_values:
        pv.update(param_values)
    elif rng.random() < 0.15:
        # values that print in exponent notation (SI units): additive constants only, so that the dynamics keep their scale
        pv["I_e"] = rng.choice(["3.0E-10", "250E-12", "1E-20"])
        pv["E_L"] = rng.choice(["-5E-20", "-0.5", "4E-10"])
    if wp == "all":
        ind["parameters"] = {p: pv[p] for p in sorted(used)}
    elif wp == "partial" and used:
        keep = sorted(used)[: max(1, len(used) // 2)]
        ind["parameters"] = {p: pv[p] for p in keep}
    elif wp == "empty":
        ind["parameters"] = {}          # present but empty: valid input
    elif wp == "extra":
        ind["parameters"] = {p: pv[p] for p in sorted(used)}
        ind["parameters"]["unused_k"] = "42"
    if options:
        ind["options"] = dict(options)
    return ind


# unusual but valid names: a name that is another name plus characters of the derivative marker's alphabet
# ("V" next to "V_d", "I" next to "Id" / "I_"), names ending in "_" or "d", and names that mean something in SymPy's full
# namespace (the toolbox parses with a minimal namespace, so they are ordinary symbols)
AWKWARD_PAIRS = [("V", "V_d"), ("g", "g_d"), ("I", "Id"), ("I", "I_"), ("x", "x_"), ("y", "yd"), ("h", "h__"), ("w", "w_d_")]
AWKWARD_SINGLES = ["gamma", "beta", "zeta", "S", "Q", "N", "O", "pi_", "Abs_", "d", "_u", "dd"]


def awkward_mapping(rng, names, params):
    """a consistent injective renaming of some state variables / one parameter to unusual-but-valid names"""
    taken = set(names) | set(PARAMS)
    mapping = {}
    names = list(names)
    rng.shuffle(names)
    if len(names) >= 2 and rng.random() < 0.7:
        a, b = rng.choice(AWKWARD_PAIRS)
        if a not in taken and b not in taken:
            if rng.random() < 0.5:
                a, b = b, a
            mapping[names[0]], mapping[names[1]] = a, b
            taken |= {a, b}
    pool = [q for q in AWKWARD_SINGLES if q not in taken]
    rng.shuffle(pool)
    for nm in names + list(params)[:1]:
        if nm not in mapping and pool and rng.random() < 0.5:
            mapping[nm] = pool.pop()
    return mapping


def apply_mapping(obj, mapping):
    import re
    blob = json.dumps(obj)
    for old, new in mapping.items():
        blob = re.sub(r"(?<![A-Za-z0-9_])%s(?![A-Za-z0-9_])" % re.escape(old), "\x00" + new + "\x00", blob)
    return json.loads(blob.replace("\x00", ""))


def awkward_names(rng, g, p=0.25):
    """with probability p rename (consistently, injectively) two or more state variables / one parameter of a generated
    system to unusual-but-valid names; ground truth is renamed with it"""
    import re
    if rng.random() >= p:
        return g
    ind = g["indict"]
    names = sorted({d["expression"].split("=")[0].strip().replace("'", "") for d in ind["dynamics"]})
    blob = json.dumps(g)
    params = sorted(q for q in PARAMS if re.search(r"(?<![A-Za-z0-9_])%s(?![A-Za-z0-9_])" % q, blob))
    mapping = awkward_mapping(rng, names, params)
    if not mapping:
        return g
    out = apply_mapping(g, mapping)
    out["awkward_names"] = mapping
    return out


TIME_NAMES = ["s", "time", "tt", "T"]


def in_time_symbol(expr_text, ind):
    """`expr_text`, written with `t` as the time variable, re-written with the time variable the input configures"""
    import re
    nm = ind.get("options", {}).get("input_time_symbol", "t")
    return expr_text if nm == "t" else re.sub(r"(?<![A-Za-z0-9_])t(?![A-Za-z0-9_])", nm, expr_text)


def rename_time(ind, nm):
    """the same system with the time variable renamed through the `input_time_symbol` option"""
    import re
    for d in ind["dynamics"]:
        lhs, rhs = d["expression"].split("=")
        d["expression"] = lhs + "=" + re.sub(r"(?<![A-Za-z0-9_])t(?![A-Za-z0-9_])", nm, rhs)
    ind.setdefault("options", {})["input_time_symbol"] = nm


def gen_system(rng, shape=None, style=None, **kw):
    T = make_truth(rng, shape)
    ind = to_indict(rng, T, style=style, **kw)
    if T.shape == "time_dependent" and rng.random() < 0.45:
        rename_time(ind, rng.choice(TIME_NAMES))
    return awkward_names(rng, {"indict": ind, "truth": T.to_json(), "shape": T.shape})
