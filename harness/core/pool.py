"""Worker pool with a hard per-case time-out.

SymPy can hang on a small input; a case that exceeds its budget is killed (the whole worker
process) and reported as ``{"timeout": True}`` -- it is never a violation.  Workers are forked
from the parent *after* the target module was imported, so start-up is cheap.
"""
import multiprocessing as mp
import os
import sys
import time
import traceback


def _worker_main(conn, modname, fname, init):
    import importlib
    import logging
    logging.disable(logging.CRITICAL)
    try:
        sys.stdout = open(os.devnull, "w")
    except Exception:
        pass
    mod = importlib.import_module(modname)
    if init:
        getattr(mod, init)()
    fn = getattr(mod, fname)
    while True:
        try:
            msg = conn.recv()
        except EOFError:
            return
        if msg is None:
            return
        idx, case = msg
        try:
            res = fn(case)
        except BaseException as e:      # SystemExit included: two code paths end in sys.exit(1)
            res = {"harness_error": type(e).__name__ + ": " + str(e), "trace": traceback.format_exc()[-1500:]}
        try:
            conn.send((idx, res))
        except Exception as e:
            conn.send((idx, {"harness_error": "unsendable result: %r" % (e,)}))


class _W:
    def __init__(self, ctx, modname, fname, init):
        self.parent, child = ctx.Pipe()
        self.proc = ctx.Process(target=_worker_main, args=(child, modname, fname, init), daemon=True)
        self.proc.start()
        child.close()
        self.busy = None       # (idx, deadline)

    def kill(self):
        try:
            self.proc.kill()
            self.proc.join(1)
        except Exception:
            pass


def run_cases(modname, fname, cases, timeout=60.0, procs=None, init=None, deadline=None):
    """Run ``modname.fname(case)`` for every case; returns list of results in order.

    A result is the function's return value, ``{"timeout": True}`` or ``{"skipped_budget": True}``
    (when the global ``deadline`` passed before the case was started).
    """
    ctx = mp.get_context("fork")
    procs = procs or min(14, max(1, (os.cpu_count() or 2) - 2))
    procs = min(procs, max(1, len(cases)))
    results = [None] * len(cases)
    todo = list(range(len(cases)))[::-1]
    workers = [_W(ctx, modname, fname, init) for _ in range(procs)]
    pending = 0
    try:
        while todo or pending:
            now = time.time()
            for i, w in enumerate(workers):
                if w.busy is None and todo:
                    if deadline is not None and now > deadline:
                        for idx in todo:
                            results[idx] = {"skipped_budget": True}
                        todo = []
                        break
                    idx = todo.pop()
                    try:
                        w.parent.send((idx, cases[idx]))
                    except Exception:
                        w.kill()
                        workers[i] = w = _W(ctx, modname, fname, init)
                        w.parent.send((idx, cases[idx]))
                    w.busy = (idx, now + timeout)
                    pending += 1
            progressed = False
            for i, w in enumerate(workers):
                if w.busy is None:
                    continue
                idx, dl = w.busy
                if w.parent.poll(0):
                    try:
                        ridx, res = w.parent.recv()
                        results[ridx] = res
                    except (EOFError, OSError):
                        results[idx] = {"harness_error": "worker died"}
                        w.kill()
                        workers[i] = _W(ctx, modname, fname, init)
                        w = workers[i]
                    w.busy = None
                    pending -= 1
                    progressed = True
                elif time.time() > dl:
                    results[idx] = {"timeout": True}
                    w.kill()
                    workers[i] = _W(ctx, modname, fname, init)
                    pending -= 1
                    progressed = True
                elif not w.proc.is_alive():
                    results[idx] = {"harness_error": "worker died"}
                    workers[i] = _W(ctx, modname, fname, init)
                    pending -= 1
                    progressed = True
            if not progressed:
                time.sleep(0.01)
    finally:
        for w in workers:
            try:
                w.parent.send(None)
            except Exception:
                pass
        time.sleep(0.05)
        for w in workers:
            w.kill()
    return results
