"""Independent high-precision reference for linear constant-coefficient input systems.

Built from the *input text* only (own parsing of left-hand sides, sympy only to parse the
right-hand side and differentiate), never from the toolbox's intermediate results.
"""
import re

import mpmath
import sympy

_GLOBALS = None


def _globals():
    global _GLOBALS
    if _GLOBALS is None:
        _GLOBALS = {"Symbol": sympy.Symbol, "Integer": sympy.Integer, "Float": sympy.Float, "Function": sympy.Function,
                    "Pow": sympy.Pow, "exp": sympy.exp, "log": sympy.log, "sin": sympy.sin, "cos": sympy.cos, "tan": sympy.tan,
                    "sinh": sympy.sinh, "cosh": sympy.cosh, "tanh": sympy.tanh, "min": sympy.Min, "max": sympy.Max,
                    "Heaviside": sympy.Heaviside, "e": sympy.E, "E": sympy.E, "t": sympy.Symbol("t"), "Rational": sympy.Rational,
                    # names SymPy's printer uses for what the input writes as a power / nested function (`2**(1/2)` comes back as `sqrt(2)`)
                    "sqrt": sympy.sqrt, "Abs": sympy.Abs}
    return dict(_GLOBALS)


def parse(s, marker="__d"):
    return sympy.parsing.sympy_parser.parse_expr(s.replace("'", marker), global_dict=_globals())


def split_entry(expr):
    lhs, rhs = expr.split("=")
    lhs = lhs.strip()
    order = lhs.count("'")
    return lhs.replace("'", ""), order, rhs.strip()


class Reference:
    def __init__(self, indict, marker="__d", dps=40):
        mpmath.mp.dps = dps
        self.marker = marker
        self.params = {sympy.Symbol(k): sympy.N(parse(str(v)), dps) for k, v in indict.get("parameters", {}).items()}
        self.vars = []
        rhs = {}
        iv = {}
        for dyn in indict["dynamics"]:
            name, order, r = split_entry(dyn["expression"])
            if order == 0:
                raise ValueError("function-of-time entry: use FunctionReference")
            syms = [name + marker * k for k in range(order)]
            self.vars += syms
            for k in range(order - 1):
                rhs[syms[k]] = sympy.Symbol(syms[k + 1])
            rhs[syms[-1]] = parse(r, marker)
            if "initial_value" in dyn:
                iv[name] = parse(str(dyn["initial_value"]), marker)
            for k, v in dyn.get("initial_values", {}).items():
                iv[k.replace("'", marker).strip()] = parse(str(v), marker)
        self.syms = [sympy.Symbol(v) for v in self.vars]
        self.rhs = [rhs[v] for v in self.vars]
        self.iv_expr = [iv[v] for v in self.vars]
        n = len(self.vars)
        self.A = sympy.Matrix(n, n, lambda i, j: sympy.diff(self.rhs[i], self.syms[j]))
        self.b = sympy.Matrix([sympy.expand(self.rhs[i] - sum(self.A[i, j] * self.syms[j] for j in range(n))) for i in range(n)])
        self.linear = not any(s in (self.A.free_symbols | self.b.free_symbols) for s in self.syms)

    def numeric(self, params=None):
        p = dict(self.params)
        if params:
            p.update({sympy.Symbol(str(k)): sympy.N(v, mpmath.mp.dps) for k, v in params.items()})
        n = len(self.vars)
        A = mpmath.matrix(n + 1, n + 1)
        for i in range(n):
            for j in range(n):
                A[i, j] = mpmath.mpf(str(sympy.N(self.A[i, j].subs(p), mpmath.mp.dps)))
            A[i, n] = mpmath.mpf(str(sympy.N(self.b[i].subs(p), mpmath.mp.dps)))
        x0 = [mpmath.mpf(str(sympy.N(e.subs(p), mpmath.mp.dps))) for e in self.iv_expr]
        return A, x0

    def flow(self, A, x, dt):
        n = len(x)
        M = mpmath.expm(A * dt)
        v = mpmath.matrix(x + [1])
        w = M * v
        return [w[i] for i in range(n)]

    def solve(self, spike_times, t, params=None, increments=None):
        """state at time t: start from the initial values; at every spike time s in (0, t] add the
        variable's increment (default: its initial value), all coincident spikes applied."""
        A, x0 = self.numeric(params)
        inc = dict(zip(self.vars, x0))
        if increments:
            inc.update(increments)
        ev = {}
        for k, ts in (spike_times or {}).items():
            for s in ts:
                ev.setdefault(s, []).append(k)
        x, tc = list(x0), 0.0
        for s in sorted(ev):
            if 0 < s <= t:
                x = self.flow(A, x, mpmath.mpf(s) - mpmath.mpf(tc))
                tc = s
                for k in ev[s]:
                    if k in self.vars:
                        x[self.vars.index(k)] += inc[k]
        if t > tc:
            x = self.flow(A, x, mpmath.mpf(t) - mpmath.mpf(tc))
        return dict(zip(self.vars, x))
