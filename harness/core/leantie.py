"""Lean side of a check run: regenerate Generated/*.lean from /repo, build, audit, drive.

Nothing here decides a property.  It reports whether the proof obligations of a property are
(still) discharged against what /repo says now, and gives access to the model driver.
"""
import fcntl
import json
import os
import re
import subprocess
import threading
import time

VERIF = os.path.abspath(os.path.join(os.path.dirname(__file__), "..", ".."))
LEAN = os.path.join(VERIF, "lean")
ALLOWED_AXIOMS = {"propext", "Classical.choice", "Quot.sound"}
FORBIDDEN = re.compile(r"\bsorry\b|\badmit\b|^\s*axiom\s|native_decide|bv_decide|implemented_by|\bunsafe\s|maxHeartbeats\s+0\b|@\[extern")


class _Lock:
    def __enter__(self):
        os.makedirs(os.path.join(LEAN, ".lake"), exist_ok=True)
        self.f = open(os.path.join(LEAN, ".lake", "verif.lock"), "w")
        fcntl.flock(self.f, fcntl.LOCK_EX)
        return self

    def __exit__(self, *a):
        fcntl.flock(self.f, fcntl.LOCK_UN)
        self.f.close()


def _strip_comments(src):
    # remove /- ... -/ (nested) and -- comments
    out = []
    i, depth, n = 0, 0, len(src)
    while i < n:
        if src.startswith("/-", i):
            depth += 1
            i += 2
        elif depth and src.startswith("-/", i):
            depth -= 1
            i += 2
        elif depth:
            if src[i] == "\n":
                out.append("\n")
            i += 1
        elif src.startswith("--", i):
            while i < n and src[i] != "\n":
                i += 1
        else:
            out.append(src[i])
            i += 1
    return "".join(out)


def grep_forbidden():
    hits = []
    for root, _, files in os.walk(LEAN):
        if ".lake" in root:
            continue
        for fn in files:
            if not fn.endswith(".lean"):
                continue
            p = os.path.join(root, fn)
            body = _strip_comments(open(p).read())
            # string literals may mention words; drop them
            body = re.sub(r'"(\\.|[^"\\])*"', '""', body)
            for ln, line in enumerate(body.split("\n"), 1):
                if FORBIDDEN.search(line):
                    hits.append("%s:%d: %s" % (os.path.relpath(p, VERIF), ln, line.strip()[:120]))
    return hits


def regenerate():
    """Rewrite lean/OdeVerif/Generated/*.lean from /repo's current source.  Returns dict."""
    from harness.translate import gen
    return gen.regenerate_all(os.path.join(LEAN, "OdeVerif", "Generated"))


def build(targets=("OdeVerif",), timeout=3000):
    t0 = time.time()
    with _Lock():
        p = subprocess.run(["lake", "build"] + list(targets), cwd=LEAN, stdout=subprocess.PIPE, stderr=subprocess.STDOUT,
                           text=True, timeout=timeout)
    return {"ok": p.returncode == 0, "output": p.stdout[-6000:], "wall_s": round(time.time() - t0, 2)}


_AX_RE = re.compile(r"'([^']+)' depends on axioms: \[([^\]]*)\]")
_NOAX_RE = re.compile(r"'([^']+)' does not depend on any axioms")


def audit(module, theorems, timeout=900):
    """#print axioms for each theorem of `module` (e.g. OdeVerif.Proofs.C14).

    Returns {thm: {"status": "ok"|"missing"|"bad-axioms", "axioms": [...]}}.
    """
    os.makedirs(os.path.join(LEAN, ".lake", "audit"), exist_ok=True)
    modules = [module] if isinstance(module, str) else list(module)
    path = os.path.join(LEAN, ".lake", "audit", "Audit_%s_%d.lean" % (modules[0].replace(".", "_"), os.getpid()))
    res = {}
    # one file per theorem group would hide which name is missing; instead run all and retry singly on error
    def run(names):
        with open(path, "w") as f:
            for m in modules:
                f.write("import %s\n" % m)
            f.write("import Lean\nopen Lean Elab Command in\nelab \"#stmt_hash \" id:ident : command => do\n"
                    "  let n ← liftCoreM <| realizeGlobalConstNoOverloadWithInfo id\n  let c ← getConstInfo n\n"
                    "  logInfo m!\"STMT {n} {c.type.hash}\"\n")
            for t in names:
                f.write("#print axioms %s\n#stmt_hash %s\n" % (t, t))
        p = subprocess.run(["lake", "env", "lean", path], cwd=LEAN, stdout=subprocess.PIPE, stderr=subprocess.STDOUT,
                           text=True, timeout=timeout)
        return p.returncode, p.stdout
    rc, out = run(theorems)
    found = {}
    text = out.replace("\n  ", " ").replace("\n ", " ")
    for m in _AX_RE.finditer(text):
        found[m.group(1)] = [a.strip() for a in m.group(2).split(",") if a.strip()]
    for m in _NOAX_RE.finditer(text):
        found[m.group(1)] = []
    hashes = dict(re.findall(r"STMT (\S+) (\d+)", out))
    lock = {}
    lp = os.path.join(LEAN, "statements.lock")
    if os.path.exists(lp):
        with open(lp) as f:
            lock = json.load(f)
    for t in theorems:
        key = t if t in found else next((k for k in found if k.endswith("." + t) or t.endswith("." + k)), None)
        if key is None:
            res[t] = {"status": "missing", "axioms": []}
        else:
            ax = found[key]
            bad = [a for a in ax if a not in ALLOWED_AXIOMS]
            res[t] = {"status": "bad-axioms" if bad else "ok", "axioms": ax, "statement_hash": hashes.get(t)}
            if not bad and t in lock and hashes.get(t) is not None and str(lock[t]) != str(hashes.get(t)):
                res[t]["status"] = "statement-changed"
    try:
        os.remove(path)
    except OSError:
        pass
    return res, out[-3000:]


def leanchecker(modules, timeout=3000):
    p = subprocess.run(["lake", "env", "leanchecker"] + list(modules), cwd=LEAN, stdout=subprocess.PIPE,
                       stderr=subprocess.STDOUT, text=True, timeout=timeout)
    return {"ok": p.returncode == 0, "output": p.stdout[-2000:]}


class Driver:
    """Line protocol client for the Lean model driver (`lake env lean --run Main.lean`)."""

    def __init__(self):
        self.proc = subprocess.Popen(["lake", "env", "lean", "--run", "Main.lean"], cwd=LEAN, stdin=subprocess.PIPE,
                                     stdout=subprocess.PIPE, stderr=subprocess.PIPE, text=True, bufsize=1 << 20)
        self.n = 0

    def ask(self, ops):
        """ops: list of (opname, payload-json-able).  Returns list of parsed JSON answers."""
        lines = [op + " " + json.dumps(payload, separators=(",", ":")) + "\n" for op, payload in ops]

        def writer():
            try:
                for ln in lines:
                    self.proc.stdin.write(ln)
                self.proc.stdin.flush()
            except BrokenPipeError:
                pass
        th = threading.Thread(target=writer)
        th.start()
        outs = []
        for _ in lines:
            ln = self.proc.stdout.readline()
            if not ln:
                err = self.proc.stderr.read()[-2000:]
                raise RuntimeError("Lean driver died: " + err)
            try:
                outs.append(json.loads(ln))
            except json.JSONDecodeError:
                outs.append({"driver_garbage": ln.strip()[:300]})
        th.join()
        self.n += len(lines)
        return outs

    def close(self):
        try:
            self.proc.stdin.close()
            self.proc.wait(10)
        except Exception:
            self.proc.kill()
