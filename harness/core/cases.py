"""Case functions shared by several properties (run inside pool workers)."""
import json

from harness.core import tb


def init_worker():
    tb.import_toolbox()


def _is_zero(x):
    from odetoolbox.sympy_helpers import _is_zero as z
    return z(x)


def graph_payload(tr):
    """Model input for op `verdict`, read off the traced system."""
    import sympy
    sysd = tr["system"]
    x = sysd["x"]
    n = len(x)
    A, b, c = sysd["A"], sysd["b"], sysd["c"]
    xs = [sympy.Symbol(v) for v in x]
    anz = [[not _is_zero(A[i, j]) for j in range(n)] for i in range(n)]
    cdep = [[xs[j] in c[i].free_symbols for j in range(n)] for i in range(n)]
    bnz = [not _is_zero(b[i]) for i in range(n)]
    v0 = tr.get("verdict0", {})
    return {"n": n, "anz": anz, "cdep": cdep, "bnz": bnz, "shape_lin": [bool(v0.get(v, False)) for v in x]}


def case_partition(case):
    """Traced analysis of case['indict'] (propagators skipped when case['stop'] is set) + independent classification."""
    from harness.core import trace, truthcheck
    indict = case["indict"]
    marker = indict.get("options", {}).get("differential_order_symbol", "__d")
    out = {"marker": marker}
    tr = trace.traced_analysis(indict, stop_before_propagators=bool(case.get("stop")), **case.get("flags", {}))
    if "system" in tr:
        out["x"] = tr["system"]["x"]
        out["graph"] = graph_payload(tr)
        for k in ("verdict0", "verdict1", "verdict2"):
            if k in tr:
                out[k] = [bool(tr[k].get(v)) for v in out["x"]]
        subs = tr.get("sub_systems", [])
        out["sub_symbols"] = [s["symbols"] for s in subs]
    out["error"] = tr.get("error")
    out["stopped"] = bool(tr.get("stopped"))
    try:
        out["glue"] = glue_case(indict, marker, tr, case.get("flags", {}))
    except Exception as e:
        out["glue_error"] = type(e).__name__ + ": " + str(e)[:160]
    if "result" in tr:
        res = tr["result"]
        out["solvers"] = [{"solver": s["solver"], "state_variables": list(s["state_variables"]),
                           "update_expressions": {k: str(v) for k, v in s.get("update_expressions", {}).items()},
                           "propagators": {k: str(v) for k, v in s.get("propagators", {}).items()},
                           "initial_values": dict(s.get("initial_values", {})), "parameters": s.get("parameters")} for s in res]
    try:
        cl = truthcheck.classify(indict, marker=marker, time_symbol=indict.get("options", {}).get("input_time_symbol", "t"))
        out["truth"] = {k: cl[k] for k in ("vars", "lin", "deps", "exc1", "exc2", "eligible", "expected_analytic", "has_offset", "scc", "offset")}
    except Exception as e:
        out["truth_error"] = type(e).__name__ + ": " + str(e)[:200]
    return out


# ------------------------------------------------------------------------------------------------
#  full analysis case: split calls, assembled system on values, Jacobian, result strings
# ------------------------------------------------------------------------------------------------

def term_to_model(term, symid):
    """SymPy term of an expanded sum -> model Term (what the split looks at)."""
    import sympy
    direct, inside = {}, set()
    for f in sympy.Mul.make_args(term):
        if f.is_Number:
            continue
        if f.is_Symbol:
            direct[f] = direct.get(f, 0) + 1
        elif f.is_Pow and f.base.is_Symbol and f.exp.is_Integer:
            direct[f.base] = direct.get(f.base, 0) + int(f.exp)
        else:
            inside |= f.free_symbols
    return {"direct": [[symid(s), e] for s, e in direct.items() if e != 0], "inside": sorted(symid(s) for s in inside)}


def _key(term):
    return term.as_coeff_Mul()[1]


def case_full(case):
    """Traced analysis with the split calls and Jacobian expressions captured, and the assembled system evaluated
    at a random rational point (seeded by case['pt_seed'])."""
    import random
    import sympy
    from harness.core import numeval, trace, truthcheck
    from odetoolbox.shapes import Shape
    from odetoolbox.sympy_helpers import _is_zero
    indict = case["indict"]
    flags = dict(case.get("flags", {}))
    marker = indict.get("options", {}).get("differential_order_symbol", "__d")
    out = {"marker": marker}
    ids = {}

    def symid(s):
        return ids.setdefault(str(s), len(ids))
    split_calls = []
    orig_split = Shape.split_lin_inhom_nonlin

    def rec_split(expr, x, parameters=None):
        lin, inhom, nonlin = orig_split(expr, x, parameters=parameters)
        try:
            ex = expr.expand()
            terms = list(ex.args) if ex.is_Add else [ex]
            params = list((parameters or {}).keys())
            buckets = {}
            for a in sympy.Add.make_args(sympy.expand(inhom)):
                if not a.is_zero:
                    buckets[_key(a) if not a.is_Number else sympy.Integer(1)] = "c"
            for a in sympy.Add.make_args(sympy.expand(nonlin)):
                if not a.is_zero:
                    buckets[_key(a) if not a.is_Number else sympy.Integer(1)] = "n"
            for j, s in enumerate(x):
                for a in sympy.Add.make_args(sympy.expand(lin[j])):
                    if not a.is_zero:
                        buckets[_key(a * s)] = ["l", j]
            real = []
            for t in terms:
                k = _key(t) if not t.is_Number else sympy.Integer(1)
                real.append(buckets.get(k, "?") if not t.is_zero else "zero")
            if not any(t.is_zero for t in terms) and len(split_calls) < 40:
                split_calls.append({"payload": {"params": [symid(p) for p in params], "xs": [symid(s) for s in x],
                                                "terms": [term_to_model(t, symid) for t in terms]},
                                    "real": real, "terms": [str(t) for t in terms]})
        except Exception as e:      # bridge failure is reported, never silently dropped
            split_calls.append({"bridge_error": type(e).__name__ + ": " + str(e)[:200]})
        return lin, inhom, nonlin
    from_ode_calls = []
    cur = {}
    orig_from_ode = Shape.from_ode.__func__

    def rec_from_ode(cls, symbol, definition, initial_values, all_variable_symbols=None, **kw):
        cur.clear()
        cur["active"] = True
        try:
            sh = orig_from_ode(cls, symbol, definition, initial_values, all_variable_symbols=all_variable_symbols, **kw)
        finally:
            cur["active"] = False
        if "split" in cur and all_variable_symbols is not None and len(from_ode_calls) < 12:
            lin, inhom, nonlin, xs = cur["split"]
            from_ode_calls.append({"symbol": symbol, "order": sh.order, "x": [str(v) for v in xs], "lin": list(lin), "inhom": inhom, "nonlin": nonlin,
                                   "shape_factors": list(sh.derivative_factors), "shape_inhom": sh.inhom_term, "shape_nonlin": sh.nonlin_term,
                                   "shape_expr": sh.reconstitute_expr()})
        return sh
    Shape.from_ode = classmethod(rec_from_ode)
    _rec_split_inner = rec_split

    def rec_split2(expr, x, parameters=None):
        r = _rec_split_inner(expr, x, parameters=parameters)
        if cur.get("active") and "split" not in cur:
            cur["split"] = (r[0], r[1], r[2], list(x))
        return r
    Shape.split_lin_inhom_nonlin = staticmethod(rec_split2)
    try:
        tr = trace.traced_analysis(indict, stop_before_propagators=bool(case.get("stop")), **flags)
    finally:
        Shape.split_lin_inhom_nonlin = staticmethod(orig_split)
        Shape.from_ode = classmethod(orig_from_ode)
    out["split_calls"] = split_calls
    try:
        import random as _r
        rng_f = _r.Random(case.get("pt_seed", 1) + 99)
        foc = []
        for c_ in from_ode_calls:
            syms = set()
            for e_ in list(c_["lin"]) + [c_["inhom"], c_["nonlin"], c_["shape_inhom"], c_["shape_nonlin"], c_["shape_expr"]] + list(c_["shape_factors"]):
                syms |= sympy.sympify(e_).free_symbols
            syms |= {sympy.Symbol(v) for v in c_["x"]}
            pt_f = numeval.make_point(syms, rng_f)
            ev = lambda e_: numeval.val(e_, pt_f)      # noqa: E731
            vals_f = {"factors": [ev(e_) for e_ in c_["lin"]], "x": [ev(sympy.Symbol(v)) for v in c_["x"]], "inhom": ev(c_["inhom"]), "nonlin": ev(c_["nonlin"])}
            # `all_variable_symbols.index(sym)`: the first position of each of the shape's own symbols (the list may hold them twice)
            local = [c_["x"].index(c_["symbol"] + marker * k) for k in range(c_["order"])]
            real = {"local_factors": [ev(e_) for e_ in c_["shape_factors"]], "inhom": ev(c_["shape_inhom"]), "nonlin": ev(c_["shape_nonlin"]), "reconstituted": ev(c_["shape_expr"])}
            flat = vals_f["factors"] + vals_f["x"] + [vals_f["inhom"], vals_f["nonlin"]] + real["local_factors"] + [real["inhom"], real["nonlin"], real["reconstituted"]]
            if any(v is None for v in flat):
                continue
            foc.append({"payload": {"factors": [numeval.fs(v) for v in vals_f["factors"]], "x": [numeval.fs(v) for v in vals_f["x"]], "local": local,
                                    "inhom": numeval.fs(vals_f["inhom"]), "nonlin": numeval.fs(vals_f["nonlin"])},
                        "real": {"local_factors": [numeval.fs(v) for v in real["local_factors"]], "inhom": numeval.fs(real["inhom"]), "nonlin": numeval.fs(real["nonlin"]),
                                 "reconstituted": numeval.fs(real["reconstituted"])}, "symbol": c_["symbol"]})
        out["from_ode_calls"] = foc
    except Exception as e:
        out["from_ode_error"] = type(e).__name__ + ": " + str(e)[:150]
    out["error"] = tr.get("error")
    out["stopped"] = bool(tr.get("stopped"))
    if "system" in tr:
        sysd = tr["system"]
        x = sysd["x"]
        out["x"] = x
        out["graph"] = graph_payload(tr)
        for k in ("verdict0", "verdict1", "verdict2"):
            if k in tr:
                out[k] = [bool(tr[k].get(v)) for v in x]
        out["sub_symbols"] = [s_["symbols"] for s_ in tr.get("sub_systems", [])]
        if "verdict0" in out and case.get("poly", True):
            try:
                out["poly_cases"] = poly_cases(indict, marker, x, out["verdict0"], x)
            except Exception as e:
                out["poly_error"] = type(e).__name__ + ": " + str(e)[:120]
        if case.get("poly", True):
            try:
                out["pipeline_case"] = pipeline_case(indict, marker, x)
            except Exception as e:
                out["pipeline_error"] = type(e).__name__ + ": " + str(e)[:120]
        # ---- values at a random point
        rng = random.Random(case.get("pt_seed", 1))
        A, b, c = sysd["A"], sysd["b"], sysd["c"]
        allsyms = set(A.free_symbols) | set(b.free_symbols) | set(c.free_symbols) | {sympy.Symbol(v) for v in x}
        try:
            cl_rhs = truthcheck.parse_system(indict, marker)["rhs"]
            for e in cl_rhs.values():
                allsyms |= e.free_symbols
        except Exception:
            cl_rhs = None
        pt = numeval.make_point(allsyms, rng)
        n = len(x)
        try:
            vals = {"A": [[numeval.val(A[i, j], pt) for j in range(n)] for i in range(n)], "b": [numeval.val(b[i], pt) for i in range(n)],
                    "c": [numeval.val(c[i], pt) for i in range(n)], "x": [numeval.val(sympy.Symbol(v), pt) for v in x]}
            flat = [v for row in vals["A"] for v in row] + vals["b"] + vals["c"] + vals["x"]
            if all(v is not None for v in flat):
                out["values"] = {"A": [[numeval.fs(v) for v in row] for row in vals["A"]], "b": [numeval.fs(v) for v in vals["b"]],
                                 "c": [numeval.fs(v) for v in vals["c"]], "x": [numeval.fs(v) for v in vals["x"]]}
                if cl_rhs is not None:
                    out["user_rhs_values"] = {v: (lambda f: None if f is None else numeval.fs(f))(numeval.val(cl_rhs[v], pt)) for v in x if v in cl_rhs}
                subs = []
                for s in tr.get("sub_systems", []):
                    keep = [x.index(v) for v in s["x"]]
                    cs = [numeval.val(s["c"][k], pt) for k in range(len(keep))]
                    subs.append({"keep": keep, "c_sub": [None if v is None else numeval.fs(v) for v in cs]})
                out["subs"] = subs
                # Jacobian: expressions differentiated + final entries + independent derivative of the user's rhs
                shape_sys = tr["shape_sys"]
                captured = []
                odiff = sympy.diff

                def rec_diff(expr, *a, **k):
                    captured.append(expr)
                    return odiff(expr, *a, **k)
                sympy.diff = rec_diff
                try:
                    J = shape_sys.get_jacobian_matrix()
                finally:
                    sympy.diff = odiff
                out["jac_exprs"] = [None if v is None else numeval.fs(v) for v in (numeval.val(captured[i * n], pt) for i in range(n))] if len(captured) == n * n else "unexpected number of diff calls: %d" % len(captured)
                out["J"] = [[(lambda f: None if f is None else numeval.fs(f))(numeval.val(J[i, j], pt)) for j in range(n)] for i in range(n)]
                if cl_rhs is not None:
                    # rows of function-of-time entries have no right-hand side in the input text: None (they are covered by J_stored below and by C05)
                    out["J_true"] = [[(lambda f: None if f is None else numeval.fs(f))(numeval.val(odiff(cl_rhs[x[i]], sympy.Symbol(x[j])), pt)) if x[i] in cl_rhs else None
                                      for j in range(n)] for i in range(n)]
                # the derivative of the COMPLETE stored right-hand side A x + b + c (get_jacobian_matrix differentiates A x + c only: a state
                # variable left in b would be lost)
                xv = sympy.Matrix([sympy.Symbol(v) for v in x])
                full = A * xv + b + c
                out["J_stored"] = [[(lambda f: None if f is None else numeval.fs(f))(numeval.val(odiff(full[i], xv[j]), pt)) for j in range(n)] for i in range(n)]
                out["point"] = {str(k): str(v) for k, v in pt.items()}
                out["_pt"] = pt
        except Exception as e:
            out["values_error"] = type(e).__name__ + ": " + str(e)[:200]
    if "result" in tr:
        res = tr["result"]
        out["solvers"] = [{"solver": s["solver"], "state_variables": list(s["state_variables"]),
                           "update_expressions": {k: str(v) for k, v in s.get("update_expressions", {}).items()},
                           "propagators": {k: str(v) for k, v in s.get("propagators", {}).items()},
                           "initial_values": dict(s.get("initial_values", {})), "parameters": s.get("parameters")} for s in res]
    try:
        out["glue"] = glue_case(indict, marker, tr, flags)
    except Exception as e:
        out["glue_error"] = type(e).__name__ + ": " + str(e)[:160]
    pt_ = out.pop("_pt", None)
    if "solvers" in out and pt_ is not None and not flags.get("preserve_expressions"):
        # value of every numeric update expression at the same point as A, b, c (for the model's numericRhs)
        try:
            from harness.core import refsol
            nv = {}
            for s_ in out["solvers"]:
                if s_["solver"].startswith("numeric"):
                    for v, e in s_["update_expressions"].items():
                        ex = refsol.parse(e, marker)
                        if all(q in pt_ for q in ex.free_symbols):
                            f = numeval.val(ex, pt_)
                            nv[v] = None if f is None else numeval.fs(f)
            out["numeric_values"] = nv
        except Exception as e:
            out["numeric_values_error"] = type(e).__name__ + ": " + str(e)[:120]
    if "solvers" in out and case.get("check_flow"):
        try:
            hs = indict.get("options", {}).get("output_timestep_symbol", "__h")
            out["flow_check"] = analytic_flow_check(indict, marker, out["solvers"], case.get("pt_seed", 1), hsym=hs)
        except Exception as e:
            out["flow_check_error"] = type(e).__name__ + ": " + str(e)[:200]
    if "solvers" in out and case.get("check_numeric_rhs", True):
        try:
            out["numeric_check"] = numeric_rhs_check(indict, marker, out["solvers"], case.get("pt_seed", 1))
        except Exception as e:
            out["numeric_check_error"] = type(e).__name__ + ": " + str(e)[:200]
    try:
        cl = truthcheck.classify(indict, marker=marker, time_symbol=indict.get("options", {}).get("input_time_symbol", "t"))
        out["truth"] = {k: cl[k] for k in ("vars", "lin", "deps", "exc1", "exc2", "eligible", "expected_analytic", "has_offset", "scc", "offset")}
    except Exception as e:
        out["truth_error"] = type(e).__name__ + ": " + str(e)[:200]
    return out


def numeric_rhs_check(indict, marker, solvers, seed):
    """For every variable of every numeric solver: value of the returned update expression vs value of the
    user's right-hand side (own parsing of the input text) at random points.  Function-of-time entries: the
    returned expressions must hold along f, f', ... as functions of t."""
    import random
    import sympy
    from harness.core import numeval, refsol, truthcheck
    ps = truthcheck.parse_system(indict, marker)
    rng = random.Random(seed + 17)
    t = sympy.Symbol(indict.get("options", {}).get("input_time_symbol", "t"))
    fvars = {}
    for name, f in ps["functions"].items():
        fvars[name] = f
    rows = []
    for s in solvers:
        if not s["solver"].startswith("numeric"):
            continue
        exprs = {v: refsol.parse(e, marker) for v, e in s["update_expressions"].items()}
        syms = set()
        for e in exprs.values():
            syms |= e.free_symbols
        for e in ps["rhs"].values():
            syms |= e.free_symbols
        for f in ps["functions"].values():
            syms |= f.free_symbols
        for trial in range(2):
            pt = numeval.make_point(syms, rng)
            # function-of-time state variables take the values of f and its derivatives at t
            for name, f in ps["functions"].items():
                k = 0
                d = f
                while True:
                    sym = sympy.Symbol(name + marker * k)
                    if sym not in syms and k > 0:
                        break
                    own = {sympy.Symbol(name + marker * kk) for kk in range(8)}
                    pt[sym] = sympy.N(d.subs({q: w for q, w in pt.items() if q not in own}), 45)
                    d = sympy.diff(d, t)
                    k += 1
                    if k > 6:
                        break
            for v, e in exprs.items():
                got = numeval.val(e, pt)
                base = v.replace(marker, "")
                if v in ps["rhs"]:
                    want = numeval.val(ps["rhs"][v], pt)
                    kind = "ode"
                elif base in ps["functions"]:
                    k = v.count(marker)
                    own = {sympy.Symbol(base + marker * kk) for kk in range(8)}
                    want = numeval.val(sympy.diff(ps["functions"][base], t, k + 1), {q: w for q, w in pt.items() if q not in own})
                    kind = "function"
                else:
                    want, kind = None, "unknown-variable"
                rows.append({"var": v, "kind": kind, "got": None if got is None else numeval.fs(got), "want": None if want is None else numeval.fs(want),
                             "expr": s["update_expressions"][v][:200]})
    return rows


def analytic_flow_check(indict, marker, solvers, seed, hsym="__h"):
    """End-to-end oracle on the returned dictionary only: with the propagators substituted, the update map u(h, x)
    must satisfy u(0,x)=x, du/dh = user_rhs(u), u(h1+h2,x) = u(h2,u(h1,x)) -- checked at random points with 40 digits."""
    import random
    import sympy
    from harness.core import numeval, refsol, truthcheck
    out = {"checked": 0, "problems": []}
    ana = [s for s in solvers if s["solver"] == "analytical"]
    if not ana:
        return out
    s = ana[0]
    ps = truthcheck.parse_system(indict, marker)
    h = sympy.Symbol(hsym)
    # the decimal literals of the returned strings denote exact rationals: evaluate them as such, so that the 45-digit
    # arithmetic below is not limited by 15-digit Float atoms (1e14*I - exp(-1e-14*h)*(1e14*I - y) cancels catastrophically)
    _exact = lambda e: sympy.nsimplify(e, rational=True)      # noqa: E731
    props = {sympy.Symbol(k): _exact(refsol.parse(v, marker)) for k, v in s["propagators"].items()}
    upd = {v: _exact(refsol.parse(e, marker)).subs(props) for v, e in s["update_expressions"].items()}
    svars = s["state_variables"]
    if any(v not in ps["rhs"] for v in svars):
        out["skipped"] = "function-of-time variable in the analytic solver (covered by C05)"
        return out
    xs = [sympy.Symbol(v) for v in svars]
    # a right-hand side may name the time variable: the flow from (x, T0) over h then solves du/dh = f(u, T0 + h); the returned update
    # expressions are functions of the state and the step size only (nothing advances the time symbol for their consumer)
    tsym = sympy.Symbol(indict.get("options", {}).get("input_time_symbol", "t"))
    rng = random.Random(seed + 5)
    syms = set()
    for e in upd.values():
        syms |= e.free_symbols
    for v in svars:
        syms |= ps["rhs"][v].free_symbols
    syms -= {h}
    dupd = {v: sympy.diff(e, h) for v, e in upd.items()}
    for trial in range(3):
        pt = numeval.make_point(syms, rng)
        # keep time constants positive and moderate so exponentials stay in range
        for k in list(pt):
            if str(k) not in svars:
                pt[k] = abs(pt[k])
        h1 = sympy.Rational(rng.randint(1, 30), 40)
        h2 = sympy.Rational(rng.randint(1, 30), 40)

        def U(hv, state, t0=None):
            d = dict(pt)
            d.update(state)
            d[h] = hv
            if t0 is not None and tsym in d:
                d[tsym] = t0
            return {v: sympy.N(upd[v].subs(d), 45) for v in svars}
        st0 = {x: pt[x] for x in xs}
        out["checked"] += 1
        try:
            u0 = U(0, st0)
            for v, x in zip(svars, xs):
                if abs(u0[v] - pt[x]) > sympy.Float("1e-7") * (1 + abs(pt[x])):
                    out["problems"].append({"law": "identity at h=0", "variable": v, "got": str(u0[v]), "want": str(pt[x])})
            u1 = U(h1, st0)
            d = dict(pt)
            d[h] = h1
            for v in svars:
                lhs = sympy.N(dupd[v].subs(d), 45)
                st = dict(pt)
                st.update({x: u1[w] for w, x in zip(svars, xs)})
                if tsym in st:
                    st[tsym] = pt[tsym] + h1
                rhs = sympy.N(_exact(ps["rhs"][v]).subs(st), 45)
                if abs(lhs - rhs) > sympy.Float("1e-7") * (1 + abs(rhs)):
                    out["problems"].append({"law": "d/dh update = rhs(updated state)", "variable": v, "got": str(lhs), "want": str(rhs), "h": str(h1)})
            u12 = U(h1 + h2, st0)
            u2 = U(h2, {x: u1[w] for w, x in zip(svars, xs)}, t0=(pt[tsym] + h1) if tsym in pt else None)
            for v in svars:
                if abs(u12[v] - u2[v]) > sympy.Float("1e-7") * (1 + abs(u12[v])):
                    out["problems"].append({"law": "step(h1) then step(h2) = step(h1+h2)", "variable": v, "got": str(u2[v]), "want": str(u12[v])})
        except Exception as e:
            out.setdefault("eval_errors", []).append(type(e).__name__ + ": " + str(e)[:120])
        if trial == 0 and not out["problems"]:
            try:
                out["problems"] += _taylor_problems(upd, xs, svars, ps, h, pt)
                out["taylor_checked"] = True
            except Exception as e:
                out.setdefault("eval_errors", []).append("taylor: " + type(e).__name__ + ": " + str(e)[:120])
        if out["problems"]:
            out["point"] = {str(k): str(v) for k, v in pt.items()}
            out["h1"], out["h2"] = str(h1), str(h2)
            break
    return out


def _taylor_problems(upd, xs, svars, ps, h, pt):
    """Coefficient-wise comparison, with a RELATIVE tolerance per coefficient, of the Taylor expansion of the update map in the
    step size at h = 0 with that of the true flow of x' = F(x) = A x + b:  u = x + h F(x) + h^2/2 J F(x) + ...  Every
    coefficient (of each state variable, and the constant part) of the first and second h-derivative is compared separately,
    so a term that is many orders of magnitude smaller than the others (a femto-ampere offset next to a millivolt state, a
    1e-15 self-coupling) is not drowned by an absolute tolerance."""
    import sympy
    R = lambda e: sympy.nsimplify(e, rational=True)      # noqa: E731   (floats of the text -> the exact rationals they denote)
    F = {v: R(ps["rhs"][v]) for v in svars}
    zero = {x: 0 for x in xs}
    par = {k: v for k, v in pt.items() if k not in xs}
    T1 = F
    T2 = {v: sum(sympy.diff(F[v], x) * F[w] for w, x in zip(svars, xs)) for v in svars}
    probs = []
    for k, T in ((1, T1), (2, T2)):
        for v in svars:
            got_e = sympy.diff(R(upd[v]), h, k).subs(h, 0)
            parts = [("constant part", None)] + [("coefficient of " + w, x) for w, x in zip(svars, xs)]
            vals = []
            for name, x in parts:
                g = (got_e if x is None else sympy.diff(got_e, x)).subs(zero).subs(par)
                w_ = (T[v] if x is None else sympy.diff(T[v], x)).subs(zero).subs(par)
                vals.append((name, sympy.N(g, 40), sympy.N(w_, 40)))
            scale = max([abs(w_) for _, _, w_ in vals] + [0])
            for name, g, w_ in vals:
                tol = sympy.Float("1e-9") * abs(w_) if w_ != 0 else sympy.Float("1e-12") * (1 + scale)
                if not (abs(g - w_) <= tol):
                    probs.append({"law": "Taylor coefficient of the update in the step size (order %d), %s" % (k, name), "variable": v,
                                  "got": str(g)[:40], "want": str(w_)[:40]})
    return probs


def _asm_error_kind(msg):
    if "nonlinear part should be zero" in msg:
        return "nonlinear"
    if "higher-order inhomogeneous" in msg:
        return "higher-order-inhomogeneous"
    if "depends on the inhomogeneous ODE" in msg:
        return "depends-on-inhomogeneous"
    if "imaginary unit" in msg:
        return "imaginary"
    return "other:" + msg[:60]


def case_assembly(case):
    """generate_propagator_solver on (a) the analytic sub-system the analysis chose, or (b) when case['direct'] is set,
    on the sub-system of *all* variables whose shape passed the linear test (bypassing the demotion rules, to reach the
    guards of the assembly).  Returns the model payloads for ops `components` / `assemble` and the real outcomes."""
    import random
    import sympy
    from harness.core import numeval, refsol, trace
    from odetoolbox.sympy_helpers import _is_zero
    from odetoolbox.system_of_shapes import PropagatorGenerationException
    indict = case["indict"]
    marker = indict.get("options", {}).get("differential_order_symbol", "__d")
    hs = indict.get("options", {}).get("output_timestep_symbol", "__h")
    out = {"marker": marker}
    tb.reset_config()
    tr = {}
    with trace.tracing(tr):
        try:
            import json
            import odetoolbox
            if case.get("direct"):
                ind = json.loads(json.dumps(indict))
                odetoolbox._read_global_config(ind)
                params = {sympy.Symbol(k): v for k, v in ind.get("parameters", {}).items()} if "parameters" in ind else None
                shapes, params = odetoolbox._from_json_to_shapes(ind, parameters=params)
                shape_sys = odetoolbox.SystemOfShapes.from_shapes(shapes, parameters=params)
                E = shape_sys.get_dependency_edges()
                lin = shape_sys.get_lin_cc_symbols(E, parameters=params)
                syms = [s for s, ok in lin.items() if ok]
                if not syms:
                    return {"skip": "no linear variable"}
                sub = shape_sys.get_sub_system(syms)
                solver = sub.generate_propagator_solver()
            else:
                res, shape_sys, shapes = odetoolbox._analysis(json.loads(json.dumps(indict)), disable_stiffness_check=True)
                ana = [s for s in res if s["solver"] == "analytical"]
                if not ana:
                    return {"skip": "no analytic solver"}
                solver = ana[0]
            out["solver"] = {"update_expressions": {k: str(v) for k, v in solver["update_expressions"].items()},
                             "propagators": {k: str(v) for k, v in solver["propagators"].items()}, "state_variables": list(solver["state_variables"])}
        except PropagatorGenerationException as e:
            out["asm_error"] = _asm_error_kind(str(e))
        except BaseException as e:
            out["error"] = {"type": type(e).__name__, "msg": str(e)[:200]}
    if "components" in tr:
        out["components"] = {"payload": {"n": len(tr["components_input_nz"]), "A": [["1" if v else "0" for v in row] for row in tr["components_input_nz"]]},
                             "real": tr["components"]}
    pin = tr.get("propagator_input")
    if pin is None or ("solver" not in out and "asm_error" not in out):
        return out
    x = pin["x"]
    n = len(x)
    rng = random.Random(case.get("pt_seed", 1))
    A, b, c = pin["A"], pin["b"], pin["c"]
    syms = set(A.free_symbols) | set(b.free_symbols) | {sympy.Symbol(v) for v in x}
    pt = numeval.make_point(syms, rng)
    h = sympy.Symbol(hs)
    pt[h] = sympy.Rational(rng.randint(1, 20), rng.randint(1, 7))
    P = tr.get("P")
    if P is None:
        return out
    pnz = [[not _is_zero(P[i, j]) for j in range(n)] for i in range(n)]
    Pv = [[sympy.Rational(rng.randint(-30, 30), rng.randint(1, 7)) if pnz[i][j] else sympy.Integer(0) for j in range(n)] for i in range(n)]
    vals = {"A": [[numeval.val(A[i, j], pt) for j in range(n)] for i in range(n)], "b": [numeval.val(b[i], pt) for i in range(n)]}
    if any(v is None for row in vals["A"] for v in row) or any(v is None for v in vals["b"]):
        return out
    payload = {"n": n, "A": [[numeval.fs(v) for v in row] for row in vals["A"]], "b": [numeval.fs(v) for v in vals["b"]],
               "x": [numeval.fs(numeval.val(sympy.Symbol(v), pt)) for v in x], "h": numeval.fs(numeval.val(h, pt)),
               "P": [[numeval.fs(numeval.val(v, {})) for v in row] for row in Pv], "Pnz": pnz,
               "cnz": [not _is_zero(c[i]) for i in range(n)], "order": pin["order"]}
    out["assemble"] = {"payload": payload, "x": x}
    if "solver" in out:
        ptP = dict(pt)
        # the documented naming of the propagator symbols: "__P__<row>__<column>", row by row over the non-zero entries, a name that is
        # already taken extended by "_" until it is unique (F17)
        pname, taken = {}, set()
        for i in range(n):
            for j in range(n):
                if pnz[i][j]:
                    nm = "__P__%s__%s" % (x[i], x[j])
                    while nm in taken:
                        nm += "_"
                    taken.add(nm)
                    pname[(i, j)] = nm
        for i in range(n):
            for j in range(n):
                ptP[sympy.Symbol(pname.get((i, j), "__P__%s__%s" % (x[i], x[j])))] = Pv[i][j]
        vals_real = []
        for v in x:
            e = refsol.parse(out["solver"]["update_expressions"][v], marker)
            vals_real.append((lambda f: None if f is None else numeval.fs(f))(numeval.val(e, ptP)))
        out["assemble"]["real_values"] = vals_real
        out["assemble"]["real_pnz_from_keys"] = [[pname.get((i, j), "__P__%s__%s" % (x[i], x[j])) in out["solver"]["propagators"] for j in range(n)] for i in range(n)]
    return out


def _analyse_plain(indict):
    import json
    import odetoolbox
    tb.reset_config()
    try:
        res = odetoolbox.analysis(json.loads(json.dumps(indict)), disable_stiffness_check=True)
        return {"ok": True, "solvers": [{"solver": s["solver"], "state_variables": list(s["state_variables"]),
                                         "update_expressions": {k: str(v) for k, v in s.get("update_expressions", {}).items()},
                                         "propagators": {k: str(v) for k, v in s.get("propagators", {}).items()},
                                         "initial_values": dict(s.get("initial_values", {}))} for s in res]}
    except BaseException as e:
        import traceback
        site = None
        for fr in traceback.extract_tb(e.__traceback__):
            if "/odetoolbox/" in fr.filename.replace("\\", "/") and not fr.name.startswith("<") and not fr.name.startswith("_print") \
                    and not fr.filename.endswith("sympy_helpers.py"):
                site = fr.name
        return {"ok": False, "error": type(e).__name__, "msg": str(e)[:160], "site": site}


def case_twin(case):
    """analysis on an input and on its transformed twin; compare success, analytic sets and update maps / initial values
    as functions (values at corresponding random points)."""
    import random
    import sympy
    from harness.core import numeval, refsol
    a = _analyse_plain(case["indict"])
    b = _analyse_plain(case["twin"])
    out = {"a_ok": a["ok"], "b_ok": b["ok"], "a_err": a.get("error"), "b_err": b.get("error"), "a_msg": a.get("msg"), "b_msg": b.get("msg"),
           "a_site": a.get("site"), "b_site": b.get("site"), "problems": []}
    if not (a["ok"] and b["ok"]):
        return out
    vm = case["varmap"]          # original state variable -> twin state variable
    pm = case.get("parmap", {})
    ma = case["indict"].get("options", {}).get("differential_order_symbol", "__d")
    hs = case["indict"].get("options", {}).get("output_timestep_symbol", "__h")

    def anaset(r):
        return sorted(v for s in r["solvers"] if s["solver"] == "analytical" for v in s["state_variables"])
    out["a_analytic"], out["b_analytic"] = anaset(a), anaset(b)
    if sorted(vm.get(v, v) for v in out["a_analytic"]) != out["b_analytic"]:
        out["problems"].append({"what": "analytic sets differ", "original": out["a_analytic"], "twin": out["b_analytic"]})
        return out

    def table(r):
        t = {}
        for s in r["solvers"]:
            props = {sympy.Symbol(k): refsol.parse(v, ma) for k, v in s["propagators"].items()}
            for v, e in s["update_expressions"].items():
                t[v] = (refsol.parse(e, ma).subs(props), refsol.parse(s["initial_values"][v], ma), s["solver"].split("-")[0])
        return t
    ta, tb_ = table(a), table(b)
    rng = random.Random(case.get("pt_seed", 1))
    syms = set()
    for e, iv, _ in ta.values():
        syms |= e.free_symbols | iv.free_symbols
    pt = numeval.make_point(syms, rng)
    for k in list(pt):
        pt[k] = abs(pt[k])
    pt_b = {}
    for k, v in pt.items():
        name = str(k)
        pt_b[sympy.Symbol(vm.get(name, pm.get(name, name)))] = v
    for v, (e, iv, kind) in ta.items():
        w = vm.get(v, v)
        if w not in tb_:
            out["problems"].append({"what": "variable missing in twin", "variable": v})
            continue
        e2, iv2, kind2 = tb_[w]
        extra = {s: sympy.Rational(3, 7) for s in (e2.free_symbols | iv2.free_symbols) if s not in pt_b}
        pb = dict(pt_b)
        pb.update(extra)
        va, vb = numeval.val(e, pt), numeval.val(e2, pb)
        ia, ib = numeval.val(iv, pt), numeval.val(iv2, pb)
        if kind != kind2:
            out["problems"].append({"what": "solver kind differs", "variable": v, "original": kind, "twin": kind2})
        elif va is None or vb is None:
            out.setdefault("undefined", 0)
            out["undefined"] += 1
        elif not numeval.close(va, vb, __import__("fractions").Fraction(1, 10 ** 9)):
            out["problems"].append({"what": "update maps differ", "variable": v, "original": float(va), "twin": float(vb)})
        if ia is not None and ib is not None and not numeval.close(ia, ib, __import__("fractions").Fraction(1, 10 ** 9)):
            out["problems"].append({"what": "initial values differ", "variable": v, "original": float(ia), "twin": float(ib)})
    out["compared"] = len(ta)
    return out


def case_dict(case):
    """Oracle on the returned solver dictionaries: completeness, closure of symbols, faithfulness of initial values
    and listed parameters, configured marker / time-step symbol used throughout."""
    import json
    import random
    import re
    import sympy
    import odetoolbox
    from harness.core import numeval, refsol
    indict = case["indict"]
    opts = indict.get("options", {})
    marker = opts.get("differential_order_symbol", "__d")
    hs = opts.get("output_timestep_symbol", "__h")
    tb.reset_config()
    try:
        res = odetoolbox.analysis(json.loads(json.dumps(indict)), **case.get("flags", {"disable_stiffness_check": True}))
    except BaseException as e:
        return {"error": type(e).__name__, "msg": str(e)[:160]}
    problems = []
    text = json.dumps(indict["dynamics"])
    input_syms = set(re.findall(r"[A-Za-z_][A-Za-z0-9_]*", text)) | set(indict.get("parameters", {}))
    expected_vars, user_iv, fun_entries = [], {}, {}
    for d in indict["dynamics"]:
        lhs, rhs = d["expression"].split("=")
        lhs = lhs.strip()
        o = lhs.count("'")
        nm = lhs.replace("'", "")
        if o == 0:
            fun_entries[nm] = rhs.strip()
            continue
        expected_vars += [nm + marker * k for k in range(o)]
        if "initial_value" in d:
            user_iv[nm] = d["initial_value"]
        for k, v in d.get("initial_values", {}).items():
            user_iv[k.strip().replace("'", marker)] = v
    allvars = [v for s in res for v in s.get("state_variables", [])]
    for v in expected_vars:
        if allvars.count(v) != 1:
            problems.append({"what": "state variable not in exactly one solver", "variable": v, "count": allvars.count(v)})
    rng = random.Random(case.get("pt_seed", 1))
    pvals = {k: sympy.N(refsol.parse(str(v)), 30) for k, v in indict.get("parameters", {}).items()}
    for s in res:
        kind = s.get("solver")
        if not (kind == "analytical" or kind == "numeric" or (isinstance(kind, str) and kind.startswith("numeric-") and len(kind) > 8)):
            problems.append({"what": "solver kind malformed", "solver": kind})
        sv = s.get("state_variables", [])
        if sorted(s.get("update_expressions", {})) != sorted(sv) or sorted(s.get("initial_values", {})) != sorted(sv):
            problems.append({"what": "not exactly one update expression and one initial value per state variable", "solver": kind,
                             "state_variables": sv, "update_keys": sorted(s.get("update_expressions", {})), "iv_keys": sorted(s.get("initial_values", {}))})
            continue
        props = s.get("propagators", {})
        tname = opts.get("input_time_symbol", "t")
        allowed = set(allvars) | {hs, tname} | set(props) | input_syms
        used_params = set()
        for group in ("update_expressions", "propagators", "initial_values"):
            for k, e in s.get(group, {}).items():
                try:
                    ex = refsol.parse(str(e), marker)
                except Exception as ex_:
                    problems.append({"what": "expression does not parse", "group": group, "key": k, "expr": str(e)[:100]})
                    continue
                fs = {str(x) for x in ex.free_symbols}
                used_params |= fs & set(indict.get("parameters", {}))
                bad = fs - allowed
                if bad:
                    problems.append({"what": "symbol outside the closure", "group": group, "key": k, "symbols": sorted(bad)})
                pu = {x for x in fs if x.startswith("__P__")}
                if pu - set(props):
                    problems.append({"what": "propagator used but not defined", "group": group, "key": k, "symbols": sorted(pu - set(props))})
                if group == "propagators" and (fs & (set(allvars) | {tname})):
                    problems.append({"what": "propagator depends on state or time other than through the step symbol", "key": k, "symbols": sorted(fs & (set(allvars) | {tname}))})
                if group == "update_expressions" and kind == "analytical" and tname in fs:
                    problems.append({"what": "analytic update expression names the time variable", "key": k, "symbols": [tname]})
                if hs != "__h" and "__h" in fs:
                    problems.append({"what": "default time-step symbol used although another one is configured", "group": group, "key": k})
        if marker != "__d":
            for v in sv:
                if "__d" in v:
                    problems.append({"what": "default derivative marker used although another one is configured", "variable": v})
        # initial values faithful
        for v in sv:
            base = v.replace(marker, "")
            if base in fun_entries:
                t = sympy.Symbol(opts.get("input_time_symbol", "t"))
                f = refsol.parse(fun_entries[base], marker)
                want_e = sympy.diff(f, t, v.count(marker)).subs(t, 0) if v.count(marker) else f.subs(t, 0)
            elif v in user_iv:
                want_e = refsol.parse(str(user_iv[v]), marker)
            else:
                problems.append({"what": "no user initial value known for variable", "variable": v})
                continue
            got_e = refsol.parse(str(s["initial_values"][v]), marker)
            syms = want_e.free_symbols | got_e.free_symbols
            pt = numeval.make_point(syms, rng)
            a, b = numeval.val(want_e, pt), numeval.val(got_e, pt)
            if a is not None and b is not None and not numeval.close(a, b, __import__("fractions").Fraction(1, 10 ** 10)):
                problems.append({"what": "initial value differs from the user's", "variable": v, "expected": str(want_e), "observed": str(s["initial_values"][v])})
        # parameters listed
        if "parameters" in indict:
            listed = s.get("parameters")
            if listed is None:
                problems.append({"what": "parameters supplied but solver lists none", "solver": kind})
            else:
                for p in sorted(used_params):
                    if p not in listed:
                        only_iv = not any(p in {str(x) for x in refsol.parse(str(e), marker).free_symbols} for g in ("update_expressions", "propagators") for e in s.get(g, {}).values())
                        problems.append({"what": "supplied parameter referenced by the solver is not listed", "parameter": p, "referenced_only_by_initial_values": only_iv})
                    else:
                        try:
                            if abs(complex(sympy.N(refsol.parse(str(listed[p])))) - complex(pvals[p])) > 1e-12 * max(1, abs(complex(pvals[p]))):
                                problems.append({"what": "listed parameter value differs", "parameter": p, "listed": listed[p], "supplied": indict["parameters"][p]})
                        except Exception:
                            pass
    ret = {"problems": problems, "n_solvers": len(res), "kinds": [s.get("solver") for s in res], "nvars": len(allvars)}
    try:        # second, traced run: payloads for the glue models (initial-value copy, get_initial_value, linearity flags)
        from harness.core import trace
        fl = dict(case.get("flags", {"disable_stiffness_check": True}))
        tr = trace.traced_analysis(indict, **fl)
        ret["glue"] = glue_case(indict, marker, tr, fl)
    except Exception as e:
        ret["glue_error"] = type(e).__name__ + ": " + str(e)[:160]
    return ret


class _NotPoly(Exception):
    pass


def sympy_to_poly(e, idx):
    """unevaluated SymPy tree (Laurent-polynomial grammar) -> model Expr JSON; raises _NotPoly otherwise"""
    import sympy
    from fractions import Fraction
    if e.is_Symbol:
        return {"sym": [idx(e), 1]}
    if e.is_Rational:
        return {"num": "%d/%d" % (e.p, e.q)}
    if e.is_Float:
        f = Fraction(float(e))
        return {"num": "%d/%d" % (f.numerator, f.denominator)}
    if e.is_Number:
        raise _NotPoly(str(e))
    if e.is_Pow:
        b, k = e.args
        if not (k.is_Integer or (k.is_Float and float(k).is_integer())):
            raise _NotPoly("non-integer power")
        k = int(k)
        if b.is_Symbol:
            return {"sym": [idx(b), k]}
        if k >= 0:
            return {"pow": [sympy_to_poly(b, idx), k]}
        # negative power of a product of symbol powers / numbers
        fs = sympy.Mul.make_args(b)
        out = None
        for f in fs:
            if f.is_Symbol:
                t = {"sym": [idx(f), k]}
            elif f.is_Pow and f.args[0].is_Symbol and f.args[1].is_Integer:
                t = {"sym": [idx(f.args[0]), int(f.args[1]) * k]}
            elif f.is_Rational and f != 0:
                t = {"num": "%d/%d" % ((f.q ** -k) * (1 if f.p > 0 or k % 2 == 0 else -1), abs(f.p) ** -k)}
            else:
                raise _NotPoly("negative power of a sum")
            out = t if out is None else {"mul": [out, t]}
        return out
    if e.is_Add or e.is_Mul:
        key = "add" if e.is_Add else "mul"
        args = list(e.args)
        out = sympy_to_poly(args[0], idx)
        for a in args[1:]:
            out = {key: [out, sympy_to_poly(a, idx)]}
        return out
    raise _NotPoly(type(e).__name__)


def poly_cases(indict, marker, x, verdict0, state_vars):
    """for every ODE entry whose right-hand side is in the Laurent-polynomial grammar: the model payload for op
    `poly-verdict` (built from the *unevaluated* parse of the user's text, so the spelling is kept) and the toolbox's
    own judgement of that shape"""
    import sympy
    from sympy.parsing.sympy_parser import parse_expr
    out = []
    for d in indict["dynamics"]:
        lhs, rhs = d["expression"].split("=")
        lhs = lhs.strip()
        o = lhs.count("'")
        if o == 0:
            continue
        name = lhs.replace("'", "")
        top = name + marker * (o - 1)
        if top not in x:
            continue
        try:
            e = parse_expr(rhs.strip().replace("'", marker), global_dict={"Symbol": sympy.Symbol, "Integer": sympy.Integer, "Float": sympy.Float,
                                                                         "Rational": sympy.Rational, "e": sympy.E, "E": sympy.E, "Add": sympy.Add, "Mul": sympy.Mul, "Pow": sympy.Pow, "Function": sympy.Function}, evaluate=False)
            syms = sorted({str(s) for s in e.free_symbols} | set(state_vars))
            if "t" in syms or any(a == sympy.E for a in sympy.preorder_traversal(e)):
                continue
            pos = {s: i for i, s in enumerate(syms)}
            tree = sympy_to_poly(e, lambda s: pos[str(s)])
            out.append({"payload": {"n": len(syms), "is_var": [s in state_vars for s in syms], "expr": tree}, "var": top,
                        "real_lin": bool(verdict0[x.index(top)]), "rhs": rhs.strip()})
        except _NotPoly:
            continue
        except Exception as ex:
            out.append({"bridge_error": type(ex).__name__ + ": " + str(ex)[:100], "rhs": rhs.strip()})
    return out


def _nice_floats(e):
    """every Float of the tree is a small dyadic rational, so that SymPy's double arithmetic on the few sums and
    products of an expansion is exact and the model's rational arithmetic must agree with it"""
    import sympy
    from fractions import Fraction
    for a in sympy.preorder_traversal(e):
        if a.is_Float:
            f = Fraction(float(a))
            if f.denominator > 1024 or abs(f) > 2 ** 20:
                return False
    return True


def pipeline_case(indict, marker, x):
    """payload for the model's op `pipeline` (the whole analysis on the Laurent-polynomial fragment) when every entry is
    an ODE whose right-hand side lies in that fragment; None otherwise.  Built from the *unevaluated* parse of the text."""
    import sympy
    from sympy.parsing.sympy_parser import parse_expr
    tname = indict.get("options", {}).get("input_time_symbol", "t")
    gd = {"Symbol": sympy.Symbol, "Integer": sympy.Integer, "Float": sympy.Float, "Rational": sympy.Rational, "e": sympy.E, "E": sympy.E,
          "Add": sympy.Add, "Mul": sympy.Mul, "Pow": sympy.Pow, "Function": sympy.Function}
    ents = []
    names = set(x) | {tname}
    for d in indict.get("dynamics", []):
        if d["expression"].count("=") != 1:
            return None
        lhs, rhs = d["expression"].split("=")
        lhs = lhs.strip()
        o = lhs.count("'")
        if o == 0:
            return None                      # function-of-time entry: outside the fragment
        name = lhs.replace("'", "").strip()
        e = parse_expr(rhs.strip().replace("'", marker), global_dict=gd, evaluate=False)
        if any(a == sympy.E for a in sympy.preorder_traversal(e)) or not _nice_floats(e):
            return None
        names |= {str(q) for q in e.free_symbols}
        ents.append((name, o, e, rhs.strip()))
    syms = sorted(names)
    pos = {q: i for i, q in enumerate(syms)}
    entries = []
    try:
        for name, o, e, _ in ents:
            derivs = [name + marker * k for k in range(o)]
            if any(v not in pos for v in derivs):
                return None
            entries.append({"derivs": [pos[v] for v in derivs], "expr": sympy_to_poly(e, lambda q: pos[str(q)])})
    except _NotPoly:
        return None
    return {"n": len(syms), "time": pos[tname], "entries": entries, "symbols": syms}


def glue_case(indict, marker, tr, flags):
    """payloads + implementation answers for the glue models (Model/Glue.lean): initial-value copy, SystemOfShapes.get_initial_value,
    the preserve_expressions block, get_lin_cc_symbols.  State variables travel as (shape symbol, order) pairs; the spelling
    <-> pair table is built here from the Shape objects (an unknown spelling becomes (spelling, 0))."""
    from odetoolbox.shapes import Shape
    g = {}
    shapes = tr.get("shapes")
    res = tr.get("result")
    if shapes is not None:
        pair = {}
        for sh in shapes:
            for k in range(sh.order):
                pair.setdefault(str(sh.symbol) + marker * k, [str(sh.symbol), k])

        def to_pair(sp):
            return pair.get(sp, [sp, 0])

        def key_pair(key):      # keys of Shape.initial_values are primed spellings
            n = len(key) - len(key.rstrip("'"))
            return [key.rstrip("'"), n]
        pshapes = [{"symbol": str(sh.symbol), "order": int(sh.order),
                    "iv": [key_pair(str(k_)) + [str(v_)] for k_, v_ in sh.initial_values.items()]} for sh in shapes]
        if res is not None:
            solvers = [[to_pair(v) for v in s_["state_variables"]] for s_ in res]
            queries, sys_real = [], []
            ss = tr.get("shape_sys")
            for s_ in res:
                for v in s_["state_variables"]:
                    queries.append(to_pair(v))
                    try:
                        r_ = ss.get_initial_value(v)
                        sys_real.append(None if r_ is None else [str(r_)])
                    except AssertionError:
                        sys_real.append("unknown")
            g["iv"] = {"payload": {"shapes": pshapes, "solvers": solvers, "queries": queries},
                       "real": [[[to_pair(k_), str(v_)] for k_, v_ in s_.get("initial_values", {}).items()] for s_ in res],
                       "sys_real": sys_real, "spellings": [list(s_["state_variables"]) for s_ in res]}
    if "shape_lin" in tr and "verdict0" in tr and shapes is not None:
        xs = tr["system"]["x"]
        g["lin"] = {"payload": {"shapes": [{"symbol": a, "order": b, "lin": c} for a, b, c in tr["shape_lin"]], "queries": [pair.get(v, [v, 0]) for v in xs]},
                    "real": [tr["verdict0"].get(v) for v in xs], "x": xs}
    # ---- preserve_expressions
    pe = flags.get("preserve_expressions", False)
    err = tr.get("error")
    pres_err = None
    if err and err["type"] == "MalformedInputException":
        if "Requested to preserve expression of variable" in err["msg"]:
            pres_err = "notFirstOrder"
        elif "preserve_expressions`` parameter should be" in err["msg"]:
            pres_err = "badArgument"
    if res is not None or pres_err is not None:
        dyn, table, ok = [], [], True
        for d in indict["dynamics"]:
            e = {}
            if "expression" in d:
                e["expression"] = d["expression"]
            if "expressions" in d:
                e["expressions"] = list(d["expressions"])
            dyn.append(e)
            for ex in ([d["expression"]] if "expression" in d else list(d.get("expressions", []))):
                try:
                    n_, o_, rhs_ = Shape._parse_defining_expression(ex)
                    table.append([ex, str(n_), int(o_), str(rhs_)])
                except Exception:
                    ok = False
        if ok:
            arg = pe if isinstance(pe, bool) else ([str(v) for v in pe] if isinstance(pe, (list, tuple)) else "other")
            solvers = [] if res is None else [{"id": i, "hasUpdate": "update_expressions" in s_, "analytic": "analytic" in s_["solver"],
                                               "update": list(s_.get("update_expressions", {}).keys())} for i, s_ in enumerate(res)]
            g["preserve"] = {"payload": {"dyn": dyn, "parse": table, "arg": arg, "marker": marker, "solvers": solvers},
                             "real_error": pres_err,
                             "real": None if res is None else [{k_: str(v_) for k_, v_ in s_.get("update_expressions", {}).items()} for s_ in res]}
    return g
