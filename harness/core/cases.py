"""Case functions shared by several properties (run inside pool workers)."""
import json

from harness.core import tb


def init_worker():
    tb.import_toolbox()


def _is_zero(x):
    from odetoolbox.sympy_helpers import _is_zero as z
    return z(x)


def graph_payload(tr):
    """Model input for op `verdict`, read off the traced system."""
    import sympy
    sysd = tr["system"]
    x = sysd["x"]
    n = len(x)
    A, b, c = sysd["A"], sysd["b"], sysd["c"]
    xs = [sympy.Symbol(v) for v in x]
    anz = [[not _is_zero(A[i, j]) for j in range(n)] for i in range(n)]
    cdep = [[xs[j] in c[i].free_symbols for j in range(n)] for i in range(n)]
    bnz = [not _is_zero(b[i]) for i in range(n)]
    v0 = tr.get("verdict0", {})
    return {"n": n, "anz": anz, "cdep": cdep, "bnz": bnz, "shape_lin": [bool(v0.get(v, False)) for v in x]}


def case_partition(case):
    """Traced analysis of case['indict'] (propagators skipped when case['stop'] is set) + independent classification."""
    from harness.core import trace, truthcheck
    indict = case["indict"]
    marker = indict.get("options", {}).get("differential_order_symbol", "__d")
    out = {"marker": marker}
    tr = trace.traced_analysis(indict, stop_before_propagators=bool(case.get("stop")), **case.get("flags", {}))
    if "system" in tr:
        out["x"] = tr["system"]["x"]
        out["graph"] = graph_payload(tr)
        for k in ("verdict0", "verdict1", "verdict2"):
            if k in tr:
                out[k] = [bool(tr[k].get(v)) for v in out["x"]]
        subs = tr.get("sub_systems", [])
        out["sub_symbols"] = [s["symbols"] for s in subs]
    out["error"] = tr.get("error")
    out["stopped"] = bool(tr.get("stopped"))
    if "result" in tr:
        res = tr["result"]
        out["solvers"] = [{"solver": s["solver"], "state_variables": list(s["state_variables"]),
                           "update_expressions": {k: str(v) for k, v in s.get("update_expressions", {}).items()},
                           "propagators": {k: str(v) for k, v in s.get("propagators", {}).items()},
                           "initial_values": dict(s.get("initial_values", {})), "parameters": s.get("parameters")} for s in res]
    try:
        cl = truthcheck.classify(indict, marker=marker)
        out["truth"] = {k: cl[k] for k in ("vars", "lin", "deps", "exc1", "exc2", "eligible", "expected_analytic", "has_offset", "scc", "offset")}
    except Exception as e:
        out["truth_error"] = type(e).__name__ + ": " + str(e)[:200]
    return out
