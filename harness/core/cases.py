"""Case functions shared by several properties (run inside pool workers)."""
import json

from harness.core import tb


def init_worker():
    tb.import_toolbox()


def _is_zero(x):
    from odetoolbox.sympy_helpers import _is_zero as z
    return z(x)


def graph_payload(tr):
    """Model input for op `verdict`, read off the traced system."""
    import sympy
    sysd = tr["system"]
    x = sysd["x"]
    n = len(x)
    A, b, c = sysd["A"], sysd["b"], sysd["c"]
    xs = [sympy.Symbol(v) for v in x]
    anz = [[not _is_zero(A[i, j]) for j in range(n)] for i in range(n)]
    cdep = [[xs[j] in c[i].free_symbols for j in range(n)] for i in range(n)]
    bnz = [not _is_zero(b[i]) for i in range(n)]
    v0 = tr.get("verdict0", {})
    return {"n": n, "anz": anz, "cdep": cdep, "bnz": bnz, "shape_lin": [bool(v0.get(v, False)) for v in x]}


def case_partition(case):
    """Traced analysis of case['indict'] (propagators skipped when case['stop'] is set) + independent classification."""
    from harness.core import trace, truthcheck
    indict = case["indict"]
    marker = indict.get("options", {}).get("differential_order_symbol", "__d")
    out = {"marker": marker}
    tr = trace.traced_analysis(indict, stop_before_propagators=bool(case.get("stop")), **case.get("flags", {}))
    if "system" in tr:
        out["x"] = tr["system"]["x"]
        out["graph"] = graph_payload(tr)
        for k in ("verdict0", "verdict1", "verdict2"):
            if k in tr:
                out[k] = [bool(tr[k].get(v)) for v in out["x"]]
        subs = tr.get("sub_systems", [])
        out["sub_symbols"] = [s["symbols"] for s in subs]
    out["error"] = tr.get("error")
    out["stopped"] = bool(tr.get("stopped"))
    if "result" in tr:
        res = tr["result"]
        out["solvers"] = [{"solver": s["solver"], "state_variables": list(s["state_variables"]),
                           "update_expressions": {k: str(v) for k, v in s.get("update_expressions", {}).items()},
                           "propagators": {k: str(v) for k, v in s.get("propagators", {}).items()},
                           "initial_values": dict(s.get("initial_values", {})), "parameters": s.get("parameters")} for s in res]
    try:
        cl = truthcheck.classify(indict, marker=marker)
        out["truth"] = {k: cl[k] for k in ("vars", "lin", "deps", "exc1", "exc2", "eligible", "expected_analytic", "has_offset", "scc", "offset")}
    except Exception as e:
        out["truth_error"] = type(e).__name__ + ": " + str(e)[:200]
    return out


# ------------------------------------------------------------------------------------------------
#  full analysis case: split calls, assembled system on values, Jacobian, result strings
# ------------------------------------------------------------------------------------------------

def term_to_model(term, symid):
    """SymPy term of an expanded sum -> model Term (what the split looks at)."""
    import sympy
    direct, inside = {}, set()
    for f in sympy.Mul.make_args(term):
        if f.is_Number:
            continue
        if f.is_Symbol:
            direct[f] = direct.get(f, 0) + 1
        elif f.is_Pow and f.base.is_Symbol and f.exp.is_Integer:
            direct[f.base] = direct.get(f.base, 0) + int(f.exp)
        else:
            inside |= f.free_symbols
    return {"direct": [[symid(s), e] for s, e in direct.items() if e != 0], "inside": sorted(symid(s) for s in inside)}


def _key(term):
    return term.as_coeff_Mul()[1]


def case_full(case):
    """Traced analysis with the split calls and Jacobian expressions captured, and the assembled system evaluated
    at a random rational point (seeded by case['pt_seed'])."""
    import random
    import sympy
    from harness.core import numeval, trace, truthcheck
    from odetoolbox.shapes import Shape
    from odetoolbox.sympy_helpers import _is_zero
    indict = case["indict"]
    flags = dict(case.get("flags", {}))
    marker = indict.get("options", {}).get("differential_order_symbol", "__d")
    out = {"marker": marker}
    ids = {}

    def symid(s):
        return ids.setdefault(str(s), len(ids))
    split_calls = []
    orig_split = Shape.split_lin_inhom_nonlin

    def rec_split(expr, x, parameters=None):
        lin, inhom, nonlin = orig_split(expr, x, parameters=parameters)
        try:
            ex = expr.expand()
            terms = list(ex.args) if ex.is_Add else [ex]
            params = list((parameters or {}).keys())
            buckets = {}
            for a in sympy.Add.make_args(sympy.expand(inhom)):
                if not a.is_zero:
                    buckets[_key(a) if not a.is_Number else sympy.Integer(1)] = "c"
            for a in sympy.Add.make_args(sympy.expand(nonlin)):
                if not a.is_zero:
                    buckets[_key(a) if not a.is_Number else sympy.Integer(1)] = "n"
            for j, s in enumerate(x):
                for a in sympy.Add.make_args(sympy.expand(lin[j])):
                    if not a.is_zero:
                        buckets[_key(a * s)] = ["l", j]
            real = []
            for t in terms:
                k = _key(t) if not t.is_Number else sympy.Integer(1)
                real.append(buckets.get(k, "?") if not t.is_zero else "zero")
            if not any(t.is_zero for t in terms) and len(split_calls) < 40:
                split_calls.append({"payload": {"params": [symid(p) for p in params], "xs": [symid(s) for s in x],
                                                "terms": [term_to_model(t, symid) for t in terms]},
                                    "real": real, "terms": [str(t) for t in terms]})
        except Exception as e:      # bridge failure is reported, never silently dropped
            split_calls.append({"bridge_error": type(e).__name__ + ": " + str(e)[:200]})
        return lin, inhom, nonlin
    Shape.split_lin_inhom_nonlin = staticmethod(rec_split)
    try:
        tr = trace.traced_analysis(indict, stop_before_propagators=bool(case.get("stop")), **flags)
    finally:
        Shape.split_lin_inhom_nonlin = staticmethod(orig_split)
    out["split_calls"] = split_calls
    out["error"] = tr.get("error")
    out["stopped"] = bool(tr.get("stopped"))
    if "system" in tr:
        sysd = tr["system"]
        x = sysd["x"]
        out["x"] = x
        out["graph"] = graph_payload(tr)
        for k in ("verdict0", "verdict1", "verdict2"):
            if k in tr:
                out[k] = [bool(tr[k].get(v)) for v in x]
        out["sub_symbols"] = [s_["symbols"] for s_ in tr.get("sub_systems", [])]
        # ---- values at a random point
        rng = random.Random(case.get("pt_seed", 1))
        A, b, c = sysd["A"], sysd["b"], sysd["c"]
        allsyms = set(A.free_symbols) | set(b.free_symbols) | set(c.free_symbols) | {sympy.Symbol(v) for v in x}
        try:
            cl_rhs = truthcheck.parse_system(indict, marker)["rhs"]
            for e in cl_rhs.values():
                allsyms |= e.free_symbols
        except Exception:
            cl_rhs = None
        pt = numeval.make_point(allsyms, rng)
        n = len(x)
        try:
            vals = {"A": [[numeval.val(A[i, j], pt) for j in range(n)] for i in range(n)], "b": [numeval.val(b[i], pt) for i in range(n)],
                    "c": [numeval.val(c[i], pt) for i in range(n)], "x": [numeval.val(sympy.Symbol(v), pt) for v in x]}
            flat = [v for row in vals["A"] for v in row] + vals["b"] + vals["c"] + vals["x"]
            if all(v is not None for v in flat):
                out["values"] = {"A": [[numeval.fs(v) for v in row] for row in vals["A"]], "b": [numeval.fs(v) for v in vals["b"]],
                                 "c": [numeval.fs(v) for v in vals["c"]], "x": [numeval.fs(v) for v in vals["x"]]}
                if cl_rhs is not None:
                    out["user_rhs_values"] = {v: (lambda f: None if f is None else numeval.fs(f))(numeval.val(cl_rhs[v], pt)) for v in x if v in cl_rhs}
                subs = []
                for s in tr.get("sub_systems", []):
                    keep = [x.index(v) for v in s["x"]]
                    cs = [numeval.val(s["c"][k], pt) for k in range(len(keep))]
                    subs.append({"keep": keep, "c_sub": [None if v is None else numeval.fs(v) for v in cs]})
                out["subs"] = subs
                # Jacobian: expressions differentiated + final entries + independent derivative of the user's rhs
                shape_sys = tr["shape_sys"]
                captured = []
                odiff = sympy.diff

                def rec_diff(expr, *a, **k):
                    captured.append(expr)
                    return odiff(expr, *a, **k)
                sympy.diff = rec_diff
                try:
                    J = shape_sys.get_jacobian_matrix()
                finally:
                    sympy.diff = odiff
                out["jac_exprs"] = [None if v is None else numeval.fs(v) for v in (numeval.val(captured[i * n], pt) for i in range(n))] if len(captured) == n * n else "unexpected number of diff calls: %d" % len(captured)
                out["J"] = [[(lambda f: None if f is None else numeval.fs(f))(numeval.val(J[i, j], pt)) for j in range(n)] for i in range(n)]
                if cl_rhs is not None:
                    out["J_true"] = [[(lambda f: None if f is None else numeval.fs(f))(numeval.val(odiff(cl_rhs[x[i]], sympy.Symbol(x[j])), pt)) for j in range(n)] for i in range(n)]
                out["point"] = {str(k): str(v) for k, v in pt.items()}
        except Exception as e:
            out["values_error"] = type(e).__name__ + ": " + str(e)[:200]
    if "result" in tr:
        res = tr["result"]
        out["solvers"] = [{"solver": s["solver"], "state_variables": list(s["state_variables"]),
                           "update_expressions": {k: str(v) for k, v in s.get("update_expressions", {}).items()},
                           "propagators": {k: str(v) for k, v in s.get("propagators", {}).items()},
                           "initial_values": dict(s.get("initial_values", {})), "parameters": s.get("parameters")} for s in res]
    if "solvers" in out and case.get("check_numeric_rhs", True):
        try:
            out["numeric_check"] = numeric_rhs_check(indict, marker, out["solvers"], case.get("pt_seed", 1))
        except Exception as e:
            out["numeric_check_error"] = type(e).__name__ + ": " + str(e)[:200]
    try:
        cl = truthcheck.classify(indict, marker=marker)
        out["truth"] = {k: cl[k] for k in ("vars", "lin", "deps", "exc1", "exc2", "eligible", "expected_analytic", "has_offset", "scc", "offset")}
    except Exception as e:
        out["truth_error"] = type(e).__name__ + ": " + str(e)[:200]
    return out


def numeric_rhs_check(indict, marker, solvers, seed):
    """For every variable of every numeric solver: value of the returned update expression vs value of the
    user's right-hand side (own parsing of the input text) at random points.  Function-of-time entries: the
    returned expressions must hold along f, f', ... as functions of t."""
    import random
    import sympy
    from harness.core import numeval, refsol, truthcheck
    ps = truthcheck.parse_system(indict, marker)
    rng = random.Random(seed + 17)
    t = sympy.Symbol("t")
    fvars = {}
    for name, f in ps["functions"].items():
        fvars[name] = f
    rows = []
    for s in solvers:
        if not s["solver"].startswith("numeric"):
            continue
        exprs = {v: refsol.parse(e, marker) for v, e in s["update_expressions"].items()}
        syms = set()
        for e in exprs.values():
            syms |= e.free_symbols
        for e in ps["rhs"].values():
            syms |= e.free_symbols
        for f in ps["functions"].values():
            syms |= f.free_symbols
        for trial in range(2):
            pt = numeval.make_point(syms, rng)
            # function-of-time state variables take the values of f and its derivatives at t
            for name, f in ps["functions"].items():
                k = 0
                d = f
                while True:
                    sym = sympy.Symbol(name + marker * k)
                    if sym not in syms and k > 0:
                        break
                    own = {sympy.Symbol(name + marker * kk) for kk in range(8)}
                    pt[sym] = sympy.N(d.subs({q: w for q, w in pt.items() if q not in own}), 45)
                    d = sympy.diff(d, t)
                    k += 1
                    if k > 6:
                        break
            for v, e in exprs.items():
                got = numeval.val(e, pt)
                base = v.replace(marker, "")
                if v in ps["rhs"]:
                    want = numeval.val(ps["rhs"][v], pt)
                    kind = "ode"
                elif base in ps["functions"]:
                    k = v.count(marker)
                    own = {sympy.Symbol(base + marker * kk) for kk in range(8)}
                    want = numeval.val(sympy.diff(ps["functions"][base], t, k + 1), {q: w for q, w in pt.items() if q not in own})
                    kind = "function"
                else:
                    want, kind = None, "unknown-variable"
                rows.append({"var": v, "kind": kind, "got": None if got is None else numeval.fs(got), "want": None if want is None else numeval.fs(want),
                             "expr": s["update_expressions"][v][:200]})
    return rows
