"""Run a list of analysis() calls WITH the stiffness check, sequentially in THIS (fresh) interpreter, through the
PyGSL stand-in; print one JSON line: per call the solver names and what each candidate benchmark measured.

stdin: {"calls": [indict, ...], "verif": <path of /verif>, "repo": <path of the repo>}
"""
import json
import logging
import sys


def main():
    req = json.load(sys.stdin)
    sys.path.insert(0, req["verif"])
    from harness.core import tb
    odetoolbox = tb.import_toolbox(standin=True)
    logging.disable(logging.CRITICAL)
    from odetoolbox.mixed_integrator import MixedIntegrator
    o_int = MixedIntegrator.integrate_ode
    measured = []

    def rec_int(self, *a, **k):
        r = o_int(self, *a, **k)
        measured.append([getattr(self.numeric_integrator, "__name__", str(self.numeric_integrator)), repr(float(r[0])), repr(float(r[1]))])
        return r
    MixedIntegrator.integrate_ode = rec_int
    outs = []
    for indict in req["calls"]:
        del measured[:]
        rec = {}
        try:
            res = odetoolbox.analysis(json.loads(json.dumps(indict)))
            rec["names"] = [s["solver"] for s in res]
        except BaseException as e:
            rec["exception"] = type(e).__name__ + ": " + str(e)[:120]
        rec["measured"] = [list(m) for m in measured]
        outs.append(rec)
    sys.stdout.write(json.dumps({"calls": outs}) + "\n")


if __name__ == "__main__":
    main()
