"""Evaluation of SymPy objects at random points, as exact rationals (rational results stay exact;
transcendental ones are 40-digit binary floats, which are exact dyadic rationals)."""
from fractions import Fraction

import mpmath
import sympy

DPS = 40


def make_point(symbols, rng):
    pt = {}
    for s in sorted(symbols, key=str):
        pt[s] = sympy.Rational(rng.choice([-1, 1]) * rng.randint(1, 40), rng.randint(1, 9))
    return pt


def val(expr, point):
    """-> Fraction (exact when the value is rational) or None when undefined at the point"""
    e = sympy.sympify(expr).subs(point)
    if e.is_Rational:
        return Fraction(int(e.p), int(e.q))
    try:
        v = sympy.N(e, DPS)
        if not v.is_Float and not v.is_Rational:
            if v.is_Number and v.is_real is False:
                return None
            v = sympy.Float(v, DPS)
        if v.is_Rational:
            return Fraction(int(v.p), int(v.q))
        sign, man, exp, bc = v._mpf_
        f = Fraction(int(man)) * (Fraction(2) ** int(exp))
        return -f if sign else f
    except Exception:
        return None


def fs(f):
    return "%d/%d" % (f.numerator, f.denominator) if f.denominator != 1 else str(f.numerator)


def parse_fs(s):
    return Fraction(s)


def close(a, b, rel=Fraction(1, 10 ** 12)):   # SymPy Floats in the input carry 15 digits
    if a is None or b is None:
        return False
    return abs(a - b) <= rel * max(1, abs(a), abs(b))
