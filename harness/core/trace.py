"""Observe the stages of `odetoolbox.analysis` from the harness process, without touching /repo.

The internals are module-level functions / methods; wrapping them here (and restoring them
afterwards) gives the same observations a source hook would, for inputs whose propagator
generation fails or is cut short as well.
"""
import contextlib
import copy


class StopBeforePropagators(Exception):
    pass


@contextlib.contextmanager
def tracing(tr, stop_before_propagators=False):
    import odetoolbox
    import odetoolbox.system_of_shapes as sos
    from odetoolbox.singularity_detection import SingularityDetection
    S = sos.SystemOfShapes
    saved = {
        "lin": S.get_lin_cc_symbols, "prop": S.propagate_lin_cc_judgements, "sub": S.get_sub_system,
        "gen": S._generate_propagator_matrix, "blocks": sos.get_block_diagonal_blocks,
        "sing": SingularityDetection.find_singularities, "from_shapes": S.from_shapes.__func__,
        "jac": S.get_jacobian_matrix,
        "comp": getattr(sos, "get_connected_component_indices", None),
    }

    def from_shapes(cls, shapes, parameters=None):
        r = saved["from_shapes"](cls, shapes, parameters=parameters)
        if "system" not in tr:
            tr["system"] = {"x": [str(s) for s in r.x_], "A": r.A_.copy(), "b": r.b_.copy(), "c": r.c_.copy(),
                            "shape_of": [str(sh.symbol) for sh in shapes for _ in range(sh.order)],
                            "shape_orders": [sh.order for sh in shapes],
                            "parameters": None if parameters is None else {str(k): v for k, v in parameters.items()}}
            tr["shape_sys"] = r
            tr["shapes"] = shapes
        return r

    def lin(self, E, parameters=None):
        r = saved["lin"](self, E, parameters=parameters)
        tr["edges"] = [(str(a), str(b)) for a, b in E]
        tr["verdict0"] = {str(k): bool(v) for k, v in r.items()}
        try:
            tr["shape_lin"] = [(str(sh.symbol), int(sh.order), bool(sh.is_lin_const_coeff_in(list(self.x_), parameters=parameters))) for sh in self.shapes_]
        except Exception as e:      # the oracle of the glue correspondence is then absent, nothing else
            tr["shape_lin_error"] = type(e).__name__
        return r

    def prop(self, node_is_lin, E):
        tr["verdict1"] = {str(k): bool(v) for k, v in node_is_lin.items()}
        tr["verdict1_order"] = [str(k) for k in node_is_lin]
        r = saved["prop"](self, node_is_lin, E)
        tr["verdict2"] = {str(k): bool(v) for k, v in r.items()}
        return r

    def sub(self, symbols):
        r = saved["sub"](self, symbols)
        tr.setdefault("sub_systems", []).append({"symbols": [str(s) for s in symbols], "x": [str(s) for s in r.x_],
                                                 "A": r.A_.copy(), "b": r.b_.copy(), "c": r.c_.copy()})
        return r

    def comp(A):
        r = saved["comp"](A)
        tr["components_input_nz"] = [[bool(A[i, j] != 0) for j in range(A.shape[1])] for i in range(A.shape[0])]
        tr["components"] = [[int(k) for k in idx] for idx in r]
        return r

    def gen(self, A):
        tr["propagator_input"] = {"x": [str(s) for s in self.x_], "A": A.copy(), "b": self.b_.copy(), "c": self.c_.copy(),
                                  "order": [int(self.shape_order_from_system_matrix(i)) for i in range(len(self.x_))]}
        if stop_before_propagators:
            raise StopBeforePropagators()
        P = saved["gen"](self, A)
        tr["P"] = P.copy()
        return P

    def blocks(A):
        r = saved["blocks"](A)
        tr["blocks_input"] = copy.deepcopy(A)
        tr["blocks"] = [b.shape[0] for b in r]
        return r

    def sing(P, A):
        r = saved["sing"](P, A)
        tr["singularities"] = {"P": P.copy(), "A": A.copy(), "conditions": [{str(k): str(v) for k, v in c.items()} for c in r]}
        tr.setdefault("singularity_calls", []).append({"P": P.copy(), "A": A.copy(), "conditions": list(r)})
        return r

    S.from_shapes = classmethod(from_shapes)
    S.get_lin_cc_symbols = lin
    S.propagate_lin_cc_judgements = prop
    S.get_sub_system = sub
    S._generate_propagator_matrix = gen
    sos.get_block_diagonal_blocks = blocks
    if saved["comp"] is not None:
        sos.get_connected_component_indices = comp
    SingularityDetection.find_singularities = staticmethod(sing)
    try:
        yield tr
    finally:
        S.from_shapes = classmethod(saved["from_shapes"])
        S.get_lin_cc_symbols = saved["lin"]
        S.propagate_lin_cc_judgements = saved["prop"]
        S.get_sub_system = saved["sub"]
        S._generate_propagator_matrix = saved["gen"]
        sos.get_block_diagonal_blocks = saved["blocks"]
        if saved["comp"] is not None:
            sos.get_connected_component_indices = saved["comp"]
        SingularityDetection.find_singularities = staticmethod(saved["sing"])


def traced_analysis(indict, stop_before_propagators=False, **flags):
    """Run `_analysis` under tracing.  Returns the trace dict with `result` or `error`."""
    import json
    import odetoolbox
    from harness.core import tb
    tb.reset_config()
    tr = {}
    flags.setdefault("disable_stiffness_check", True)
    with tracing(tr, stop_before_propagators=stop_before_propagators):
        try:
            res, shape_sys, shapes = odetoolbox._analysis(json.loads(json.dumps(indict)), **flags)
            tr["result"] = res
        except StopBeforePropagators:
            tr["stopped"] = True
        except BaseException as e:       # SystemExit paths included
            tr["error"] = {"type": type(e).__name__, "msg": str(e)[:300]}
    return tr
