"""Run a list of analysis() calls sequentially in THIS (fresh) interpreter; print one JSON line.

stdin: {"calls": [{"indict": ..., "flags": {...}}, ...]}
For every call: canonical mathematical content of the result (or the exception class), the option
store afterwards, and whether the input dictionary was left unmodified.
"""
import copy
import json
import logging
import sys


def canon(res):
    import sympy
    from fractions import Fraction
    out = []
    for s in res:
        exprs = {}
        for group in ("update_expressions", "propagators"):
            for k, v in s.get(group, {}).items():
                try:
                    e = sympy.parsing.sympy_parser.parse_expr(str(v), global_dict={"Symbol": sympy.Symbol, "Integer": sympy.Integer, "Float": sympy.Float,
                                                                                 "Rational": sympy.Rational, "exp": sympy.exp, "log": sympy.log, "sin": sympy.sin, "cos": sympy.cos,
                                                                                 "tanh": sympy.tanh, "min": sympy.Min, "max": sympy.Max, "Heaviside": sympy.Heaviside,
                                                                                 "e": sympy.E, "E": sympy.E, "Function": sympy.Function, "Pow": sympy.Pow})
                    syms = sorted(e.free_symbols, key=str)
                    pt = {x: sympy.Rational(3 + 2 * (sum(map(ord, str(x))) % 11), 7) for x in syms}
                    val = sympy.N(e.subs(pt), 14)
                    exprs[group + ":" + k] = {"symbols": [str(x) for x in syms], "value": "%.9g" % float(val) if val.is_real else str(val)}
                except Exception as ex:
                    exprs[group + ":" + k] = {"unparsed": str(v), "err": type(ex).__name__}
        out.append({"solver": s.get("solver"), "state_variables": sorted(s.get("state_variables", [])),
                    "initial_values": {k: str(v) for k, v in sorted(s.get("initial_values", {}).items())},
                    "parameters": None if s.get("parameters") is None else {k: str(v) for k, v in sorted(s["parameters"].items())},
                    "exprs": dict(sorted(exprs.items()))})
    return sorted(out, key=lambda d: (str(d["solver"]), d["state_variables"]))


def main():
    logging.disable(logging.CRITICAL)
    req = json.load(sys.stdin)
    if req.get("standin"):
        # stiffness-checked calls: PyGSL stand-in + lambdify instead of the Cython compile (harness/core/tb.py)
        import os
        sys.path.insert(0, os.path.abspath(os.path.join(os.path.dirname(__file__), "..", "..")))
        from harness.core import tb
        tb.import_toolbox(standin=True)
    import odetoolbox
    from odetoolbox.config import Config
    outs = []
    for c in req["calls"]:
        indict = c["indict"]
        before = copy.deepcopy(indict)
        rec = {}
        if req.get("standin"):
            import pygsl.odeiv as _odeiv
            del _odeiv.CALLS[:]
        try:
            res = odetoolbox.analysis(indict, **c.get("flags", {}))
            rec["result"] = canon(res)
            rec["raw"] = [{g: dict(sorted((k, str(v)) for k, v in s_.get(g, {}).items())) for g in ("update_expressions", "propagators")} for s_ in res]
        except BaseException as e:
            rec["exception"] = type(e).__name__
        rec["input_unmodified"] = (indict == before)
        if req.get("standin"):
            # what the stiffness test asked of the (stand-in) stepper: how far it simulated and the largest step it requested
            cs = list(_odeiv.CALLS)
            if cs:
                rec["stiffness_run"] = {"t_end": float(max(c[2] for c in cs)), "h_max": float(max(c[3] for c in cs)), "applies": len(cs)}
        rec["config"] = {k: (v if isinstance(v, str) else repr(v)) for k, v in Config.config.items()}
        outs.append(rec)
    sys.stdout.write(json.dumps({"calls": outs}) + "\n")


if __name__ == "__main__":
    main()
