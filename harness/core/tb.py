"""Access to the real toolbox from harness processes."""
import copy
import logging
import os
import struct
import sys

VERIF = os.path.abspath(os.path.join(os.path.dirname(__file__), "..", ".."))
STANDIN = os.path.join(VERIF, "harness", "standin")
REPO = os.environ.get("ODETOOLBOX_REPO", "/repo")


def enable_standin():
    """Put the PyGSL stand-in on sys.path.  Must be called before odetoolbox is imported."""
    if STANDIN not in sys.path:
        sys.path.insert(0, STANDIN)


def quiet():
    logging.disable(logging.CRITICAL)


def import_toolbox(standin=False, fast_autowrap=True):
    if standin:
        enable_standin()
    if REPO not in sys.path:
        sys.path.insert(0, REPO)
    quiet()
    import odetoolbox      # noqa
    if fast_autowrap:
        patch_autowrap()
    return odetoolbox


def patch_autowrap():
    """Replace the ~5 s Cython compile per expression by lambdify (harness processes only)."""
    import sympy
    import sympy.utilities.autowrap as aw
    if getattr(aw, "_verif_patched", False):
        return

    def fake_autowrap(expr, args=None, backend=None, helpers=None, **kw):
        from sympy.utilities.autowrap import CodeGenArgumentListError
        expr = sympy.sympify(expr)
        missing = [s for s in expr.free_symbols if s not in set(args)]
        if missing:
            raise CodeGenArgumentListError("missing", missing)
        f = sympy.lambdify(args, expr, modules=["math", {"Min": min, "Max": max, "Heaviside": lambda x: (0.0 if x < 0 else 1.0)}])
        return f
    aw._verif_real_autowrap = aw.autowrap
    aw.autowrap = fake_autowrap
    aw._verif_patched = True


def reset_config():
    """Put Config.config back to the pinned defaults (harness hygiene between cases)."""
    from odetoolbox.config import Config
    Config.config.clear()
    Config.config.update(copy.deepcopy(_DEFAULTS()))


_defaults_cache = None


def _DEFAULTS():
    global _defaults_cache
    if _defaults_cache is None:
        import ast
        with open(os.path.join(REPO, "odetoolbox", "config.py")) as f:
            tree = ast.parse(f.read())
        for node in ast.walk(tree):
            if isinstance(node, ast.Assign) and any(isinstance(t, ast.Name) and t.id == "config" for t in node.targets) and isinstance(node.value, ast.Dict):
                _defaults_cache = ast.literal_eval(node.value)
                break
    return _defaults_cache


def f2bits(x):
    return str(struct.unpack("<Q", struct.pack("<d", float(x)))[0])


def bits2f(s):
    return struct.unpack("<d", struct.pack("<Q", int(s)))[0]
