"""Run context: seeds, budgets, evidence, replays, known findings, verdict."""
import hashlib
import json
import os
import random
import sys
import time

VERIF = os.path.abspath(os.path.join(os.path.dirname(__file__), "..", ".."))

TRUSTED_BASE_COMMON = [
    "Lean 4.33.0 kernel; Mathlib v4.33.0 (compiled); axioms allowed: propext, Classical.choice, Quot.sound only; no native_decide / bv_decide / sorry (grep + #print axioms on every run)",
    "hand-written Lean model's fidelity to the Python source: checked by the correspondence run of this check (differential, bounded by what the generators reach)",
    "harness/translate/gen.py + py2lean.py + specs.py (Python AST -> Lean: option/constant tables, _draw_decision, and the bodies of the ~65 functions / blocks listed in DESIGN.md 11.3c and 11.3c-bis - all names translated on this run are in coverage.lean.regenerated.translated_functions); the modelling decisions of specs.py (Lean types, renderings of attribute accesses and external calls, verbatim-mapped statements) are part of the trusted base, the Generated = Model refinement theorems are not: they are re-checked by the kernel on every run",
]


def rng_for(prop, seed, stream):
    h = hashlib.sha256(("%s|%s|%s" % (prop, seed, stream)).encode()).digest()
    return random.Random(int.from_bytes(h[:8], "big"))


class Ctx:
    def __init__(self, prop, tier, seed):
        self.prop = prop
        self.tier = tier
        self.seed = seed
        self.t0 = time.time()
        self.budget_s = {"quick": 540, "thorough": 3300}[tier]
        self.cov = {}                 # free-form coverage keys
        self.samples = []
        self.assumptions = []
        self.trusted = list(TRUSTED_BASE_COMMON)
        self.oracle_failures = []     # dicts: {"kind", "case", "detail"}
        self.tie_breaks = []          # dicts: {"what", "detail"}
        self.evaluations = 0
        self.nontrivial = set()
        self.rule = ""
        self.obligations = {}         # theorem -> status dict
        self.counts = {}
        self.lean = {}
        self.known = load_known(prop)
        self.known_hits = {}

    # ------------------------------------------------------------------
    def rng(self, stream):
        return rng_for(self.prop, self.seed, stream)

    def n(self, quick_n, thorough_n):
        """case budget: thorough tier, or quick - tripled when a modelled function's AST differs from the pinned fingerprint"""
        if self.tier == "thorough":
            return thorough_n
        return quick_n * 3 if getattr(self, "source_changed", False) else quick_n

    def deadline(self, frac=0.85):
        return self.t0 + self.budget_s * frac

    def time_left(self):
        return self.budget_s - (time.time() - self.t0)

    def count(self, key, n=1):
        self.counts[key] = self.counts.get(key, 0) + n

    def sample(self, s, cap=6):
        if len(self.samples) < cap:
            self.samples.append(s)

    def note_nontrivial(self, key):
        self.nontrivial.add(key if isinstance(key, str) else json.dumps(key, sort_keys=True, default=str))

    def fail(self, kind, case, detail):
        """An oracle failure: the property is violated on the real code for `case`."""
        self.oracle_failures.append({"kind": kind, "case": case, "detail": detail})

    def corpus(self):
        """minimised past failures (and hand-picked regression inputs); they run first"""
        d = os.path.join(VERIF, "corpus", self.prop)
        out = []
        if os.path.isdir(d):
            for fn in sorted(os.listdir(d)):
                if fn.endswith(".json"):
                    with open(os.path.join(d, fn)) as f:
                        j = json.load(f)
                    j["_file"] = fn
                    out.append(j)
        self.cov["corpus_cases"] = len(out)
        return out

    def tie_break(self, what, detail):
        """Model/impl disagreement or a proof obligation that no longer checks."""
        self.tie_breaks.append({"what": what, "detail": detail})


def load_known(prop):
    p = os.path.join(VERIF, "known_findings.json")
    if not os.path.exists(p):
        return []
    with open(p) as f:
        data = json.load(f)
    return [e for e in data.get("findings", []) if e.get("property") == prop and e.get("status", "open") == "open"]


def match_known(ctx, failure):
    """A failure is a known finding iff an entry's discriminator matches it.

    Discriminators are mechanical: {"kind": <failure kind>, "match": {key: value,...}} where every
    key is looked up in failure["detail"]["signature"] (a small dict the oracle attaches).
    """
    sig = (failure.get("detail") or {}).get("signature", {})
    for e in ctx.known:
        d = e.get("discriminator", {})
        if d.get("kind") and d["kind"] != failure["kind"]:
            continue
        if all(sig.get(k) == v for k, v in d.get("match", {}).items()):
            return e
    return None


def write_replay(ctx, name, payload):
    d = os.path.join(VERIF, "replays", ctx.prop)
    os.makedirs(d, exist_ok=True)
    p = os.path.join(d, "%s_seed%d_%s.json" % (ctx.tier, ctx.seed, name))
    payload = dict(payload)
    payload.update({"property": ctx.prop, "tier": ctx.tier, "seed": ctx.seed})
    with open(p, "w") as f:
        json.dump(payload, f, indent=1, default=str)
    return os.path.relpath(p, VERIF)


def finish(ctx, level="proof", checker_cmd=None):
    """Print verdict lines, write evidence, return exit status."""
    # an exception inside a case function (bridge, oracle or the code under test behaving in a way the harness did not
    # foresee) means that case was NOT checked: never skip it silently -- it breaks the tie for this run
    he = [h for h in (ctx.cov.get("harness_errors") or []) if "worker died" not in str(h)]
    if he:
        ctx.tie_break("harness-error", {"count": len(he), "first": [str(h)[:300] for h in he[:3]],
                                        "note": "case function raised; the case could not be checked (absent on the unchanged tree)"})
    new_failures = []
    for fl in ctx.oracle_failures:
        e = match_known(ctx, fl)
        if e is not None:
            ctx.known_hits.setdefault(e["id"], []).append(fl)
        else:
            new_failures.append(fl)
    lines = []
    for kid, fls in ctx.known_hits.items():
        e = next(x for x in ctx.known if x["id"] == kid)
        lines.append("KNOWN-FINDING: property=%s %s [%s; re-observed on %d input(s)]" % (ctx.prop, e["summary"], kid, len(fls)))
    status = 0
    nviol = 0
    # group new failures by kind: one VIOLATION line per kind (first = replay)
    bykind = {}
    for fl in new_failures:
        bykind.setdefault(fl["kind"], []).append(fl)
    for kind, fls in bykind.items():
        rp = write_replay(ctx, "fail_" + kind, {"what": "oracle failure on the real code", "kind": kind,
                                               "failing_input": fls[0]["case"], "detail": fls[0]["detail"],
                                               "other_failing_inputs": [f["case"] for f in fls[1:6]], "count": len(fls)})
        lines.append("VIOLATION property=%s replay=%s" % (ctx.prop, rp))
        status = 1
        nviol += 1
    if ctx.tie_breaks and not new_failures:
        # A tie broke and the search found no *new* failing input.  If every tie-break is explained by a
        # known finding re-observed in this run it was already reported above; otherwise report it.
        unexplained = [t for t in ctx.tie_breaks if not t.get("explained_by_known")]
        if unexplained:
            rp = write_replay(ctx, "tie_broken", {"what": "proof obligation or correspondence no longer checks; no failing input found",
                                                  "broken": unexplained[:10]})
            lines.append("VIOLATION property=%s replay=%s no-failing-input-found" % (ctx.prop, rp))
            status = 1
            nviol += 1
    obligations = len(ctx.obligations)
    discharged = sum(1 for v in ctx.obligations.values() if v.get("status") == "ok")
    cov = {
        "obligations": obligations,
        "discharged": discharged,
        "checker_cmd": checker_cmd or "cd lean && lake build && lake env lean <audit file with #print axioms for each theorem>",
        "trusted_base": ctx.trusted,
        "theorems": ctx.obligations,
        "evaluations": ctx.evaluations,
        "distinct_nontrivial": len(ctx.nontrivial),
        "rule": ctx.rule,
        "samples": ctx.samples if ctx.samples else ["(no case generated)"],
        "counts": ctx.counts,
        "lean": ctx.lean,
        "tie_breaks": ctx.tie_breaks[:10],
        "oracle_failures_new": len(new_failures),
        "known_findings_reobserved": {k: len(v) for k, v in ctx.known_hits.items()},
    }
    cov.update(ctx.cov)
    ev = {
        "property_id": ctx.prop,
        "tier": ctx.tier,
        "seed": ctx.seed,
        "level": level,
        "coverage": cov,
        "assumptions": ctx.assumptions,
        "wall_s": round(time.time() - ctx.t0, 2),
        "violations": nviol,
    }
    os.makedirs(os.path.join(VERIF, "evidence"), exist_ok=True)
    with open(os.path.join(VERIF, "evidence", ctx.prop + ".json"), "w") as f:
        json.dump(ev, f, indent=1, default=str)
    for ln in lines:
        print(ln)
    print("[%s %s seed=%d] evaluations=%d nontrivial=%d obligations=%d/%d ties_broken=%d new_failures=%d known=%d wall=%.1fs -> exit %d" % (
        ctx.prop, ctx.tier, ctx.seed, ctx.evaluations, len(ctx.nontrivial), discharged, obligations, len(ctx.tie_breaks),
        len(new_failures), len(ctx.known_hits), time.time() - ctx.t0, status))
    sys.stdout.flush()
    return status
