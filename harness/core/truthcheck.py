"""Independent classification of an input system (differential criterion + greatest closed subset).

Uses only the input text: own parsing of the left-hand sides, sympy to parse/differentiate the
right-hand sides.  Nothing from odetoolbox.
"""
import sympy

from harness.core import refsol


def parse_system(indict, marker="__d"):
    """-> dict(vars=[state var names], rhs={var: expr}, order info).  Function-of-time entries are
    listed under `functions` (name -> expr) and are not state variables here."""
    vars_, rhs, functions, entries = [], {}, {}, []
    for dyn in indict["dynamics"]:
        name, order, r = refsol.split_entry(dyn["expression"])
        if order == 0:
            functions[name] = refsol.parse(r, marker)
            entries.append((name, 0))
            continue
        syms = [name + marker * k for k in range(order)]
        vars_ += syms
        for k in range(order - 1):
            rhs[syms[k]] = sympy.Symbol(syms[k + 1])
        rhs[syms[-1]] = refsol.parse(r, marker)
        entries.append((name, order))
    return {"vars": vars_, "rhs": rhs, "functions": functions, "entries": entries}


def classify(indict, marker="__d", time_symbol="t"):
    ps = parse_system(indict, marker)
    if ps["functions"]:
        raise ValueError("function-of-time entries not handled here")
    vs = ps["vars"]
    syms = [sympy.Symbol(v) for v in vs]
    t = sympy.Symbol(time_symbol)
    n = len(vs)
    lin = {}
    J = [[None] * n for _ in range(n)]
    off = {}
    deps = {}
    for i, v in enumerate(vs):
        f = ps["rhs"][v]
        ok = True
        rem = f
        for j, s in enumerate(syms):
            d = sympy.diff(f, s)
            J[i][j] = d
            rem = rem - d * s
        rem = sympy.simplify(rem)
        for j, s in enumerate(syms):
            dj = J[i][j]
            if any(x in dj.free_symbols for x in syms) or t in dj.free_symbols:
                ok = False
            for k, s2 in enumerate(syms):
                if sympy.simplify(sympy.diff(f, s, s2)) != 0:
                    ok = False
        if any(x in rem.free_symbols for x in syms) or t in rem.free_symbols:
            ok = False
        lin[v] = ok
        off[v] = rem
        deps[v] = [vs[j] for j, s in enumerate(syms) if s in f.free_symbols]
    # exceptions (only meaningful for lin_cc variables)
    nz = [[(lin[vs[i]] and sympy.simplify(J[i][j]) != 0) or (not lin[vs[i]] and syms[j] in ps["rhs"][vs[i]].free_symbols) for j in range(n)] for i in range(n)]
    reach = [[i == j or nz[i][j] for j in range(n)] for i in range(n)]
    for k in range(n):
        for i in range(n):
            for j in range(n):
                reach[i][j] = reach[i][j] or (reach[i][k] and reach[k][j])
    scc = [sum(1 for j in range(n) if reach[i][j] and reach[j][i]) for i in range(n)]
    hasoff = {v: lin[v] and sympy.simplify(off[v]) != 0 for v in vs}
    exc1 = {vs[i]: bool(hasoff[vs[i]] and scc[i] > 1) for i in range(n)}
    exc2 = {vs[i]: bool(lin[vs[i]] and any(j != i and sympy.simplify(J[i][j]) != 0 and hasoff[vs[j]] for j in range(n))) for i in range(n)}
    elig = {v: lin[v] and not exc1[v] and not exc2[v] for v in vs}
    # greatest dependency-closed subset of the eligible set
    S = {v for v in vs if elig[v]}
    changed = True
    while changed:
        changed = False
        for v in list(S):
            if any(d not in S for d in deps[v]):
                S.discard(v)
                changed = True
    return {"vars": vs, "lin": lin, "offset": {v: str(off[v]) for v in vs}, "deps": deps, "exc1": exc1, "exc2": exc2,
            "eligible": elig, "expected_analytic": [v for v in vs if v in S], "has_offset": hasoff, "scc": dict(zip(vs, scc)),
            "rhs": ps["rhs"], "entries": ps["entries"], "J": J}
