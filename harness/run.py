"""Entry point:  ./check <id> quick|thorough   |   ./check <id> --replay <path>"""
import importlib
import json
import os
import signal
import sys
import time

VERIF = os.path.abspath(os.path.join(os.path.dirname(__file__), ".."))
os.environ.setdefault("ODETOOLBOX_VERIF", "1")      # hooks on for every check


def main(argv):
    if len(argv) < 2:
        print("usage: check <Cxx> quick|thorough | check <Cxx> --replay <path>")
        return 2
    prop = argv[0].upper()
    from harness.core import ctx as C
    from harness.core import leantie
    seed = int(os.environ.get("VERIF_SEED", "0") or 0)
    if argv[1] == "--replay":
        mod = importlib.import_module("harness.props." + prop.lower())
        with open(argv[2] if os.path.isabs(argv[2]) else os.path.join(VERIF, argv[2])) as f:
            rp = json.load(f)
        return mod.replay(rp)
    tier = os.environ.get("VERIF_TIER") or argv[1]
    if argv[1] in ("quick", "thorough"):
        tier = argv[1]
    ctx = C.Ctx(prop, tier, seed)

    def on_alarm(signum, frame):
        print("[%s %s] wall-clock budget exceeded (%.0fs) -- neither pass nor violation" % (prop, tier, time.time() - ctx.t0))
        sys.stdout.flush()
        os._exit(2)
    signal.signal(signal.SIGALRM, on_alarm)
    signal.alarm(int(ctx.budget_s * 1.6))

    mod = importlib.import_module("harness.props." + prop.lower())

    # ---- Lean: regenerate, build, audit ---------------------------------------------------
    driver = None
    reg = leantie.regenerate()
    ctx.lean["regenerated"] = {"changed": reg["changed"], "errors": reg["errors"],
                               "translated_functions": {g: sorted(v) for g, v in reg["info"].items() if g.startswith("Py")}}
    pm = mod.PROOF_MODULE
    proof_modules = [pm] if isinstance(pm, str) else list(pm)
    # a regenerated file that could not be produced breaks the tie of the properties whose theorems mention it
    relevant = set(getattr(mod, "GENERATED", []))
    for name, err in reg["errors"].items():
        if name in relevant:
            ctx.tie_break("regeneration:" + name, err)
        else:
            ctx.lean["regenerated"].setdefault("errors_elsewhere", {})[name] = err
    # build what this property needs (its proof modules and the model driver); a broken proof file of
    # another property must not break this one
    bd = leantie.build(("OdeVerif.Driver",))
    built, failed, wall = [], {}, bd["wall_s"]
    if bd["ok"]:
        # one module at a time: a proof module that no longer builds (e.g. a refinement theorem about a regenerated
        # definition) must not hide the state of the others
        for m in proof_modules:
            r = leantie.build((m,))
            wall += r["wall_s"]
            if r["ok"]:
                built.append(m)
            else:
                failed[m] = r["output"][-2500:]
    ctx.lean["build"] = {"ok": bd["ok"] and not failed, "wall_s": round(wall, 2), "modules_built": built, "modules_failed": sorted(failed)}
    if not bd["ok"]:
        ctx.tie_break("lake build (model driver)", bd["output"][-2500:])
        for t in mod.THEOREMS:
            ctx.obligations[t] = {"status": "build-failed", "axioms": []}
    for m, out_ in failed.items():
        ctx.lean["build"].setdefault("output_tail", {})[m] = out_
        ctx.tie_break("lake build " + m, out_)
    if bd["ok"]:
        if built:
            aud, raw = leantie.audit(built, mod.THEOREMS)
        else:
            aud, raw = {t: {"status": "missing", "axioms": []} for t in mod.THEOREMS}, ""
        for t, st in aud.items():
            if st["status"] == "missing" and failed:
                st["status"] = "build-failed"
        ctx.obligations.update(aud)
        for t, st in aud.items():
            if st["status"] not in ("ok", "build-failed"):
                ctx.tie_break("theorem:" + t, st["status"] + " " + ",".join(st["axioms"]) + " :: " + raw[-600:])
    if bd["ok"]:
        # the model driver does not depend on the proof modules: correspondence and search still run when a proof broke
        try:
            driver = leantie.Driver()
        except Exception as e:
            ctx.tie_break("driver", str(e))
    hits = leantie.grep_forbidden()
    ctx.lean["forbidden_token_hits"] = hits
    for h in hits:
        ctx.tie_break("forbidden-token", h)
    from harness.translate import gen
    ctx.lean["fingerprints"] = gen.fingerprints(prop)
    base_fp = {}
    fp_path = os.path.join(VERIF, "fingerprints.json")
    if os.path.exists(fp_path):
        with open(fp_path) as f:
            base_fp = json.load(f).get(prop, {})
    changed_fp = [k for k, v in ctx.lean["fingerprints"].items() if base_fp.get(k) not in (None, v)]
    ctx.lean["fingerprints_changed_vs_pinned"] = changed_fp
    ctx.source_changed = bool(changed_fp)
    if tier == "thorough" and built and getattr(mod, "LEANCHECKER", True):
        lc = leantie.leanchecker(built)
        ctx.lean["leanchecker"] = lc["ok"]
        if not lc["ok"]:
            ctx.tie_break("leanchecker", lc["output"])

    # ---- property-specific correspondence + oracle ---------------------------------------
    try:
        mod.run(ctx, driver)
    finally:
        if driver is not None:
            driver.close()
    return C.finish(ctx, level=getattr(mod, "LEVEL", "proof"))


if __name__ == "__main__":
    sys.exit(main(sys.argv[1:]))
