"""py2lean -- a syntax-directed translator from a small imperative subset of Python to Lean 4.

Purpose: the *bodies* of the toolbox's pure state-machine functions (event loops, worklists, spike
generators, option reading) are re-translated from /repo's AST on every check run into
`lean/OdeVerif/Generated/Py*.lean`.  `lean/OdeVerif/Proofs/Refine*.lean` proves, for all inputs, that
each generated function equals the hand-written model function the property theorems are about.  A
change of the Python source therefore changes the generated definition, and either the refinement
theorem still proves (harmless rewrite the automation sees through) or `lake build` fails and the tie
of that property is reported broken (the check then searches for a failing input).

Supported subset (anything else raises Unsupported, which also breaks the tie):
  statements   x = e | x op= e | x.append(e) | a, b = e (mapped) | if/elif/else | while c: ... (fuel)
               | for pat in it: ... (continue / break) | return e | assert (dropped or error exit)
               | docstrings / bare strings (dropped) | statements listed verbatim in the spec's stmt_map
  expressions  names, numbers, strings, + - * /, unary -, comparisons (single), and/or/not, `in`,
               calls / attributes / subscripts that the spec maps, list literals,
               list comprehensions with one generator and optional condition
Mutable locals become shadowing `let`s; a `while` becomes a structurally recursive auxiliary definition
over a fuel argument returning `Option`; a `for` becomes a structural recursion over the list.

What a spec supplies (a modelling decision, recorded in the generated file header): Lean types of the
variables, the Lean rendering of attribute accesses / external calls / verbatim statements.
"""
import ast
import re


class Unsupported(Exception):
    pass


def U(msg):
    raise Unsupported(msg)


def ind(lines, k=1):
    pad = "  " * k
    return [pad + ln if ln else ln for ln in lines]


_CMP = {ast.Gt: ">", ast.Lt: "<", ast.GtE: "≥", ast.LtE: "≤", ast.Eq: "=", ast.NotEq: "≠"}
_BIN = {ast.Mult: "*", ast.Add: "+", ast.Sub: "-", ast.Div: "/"}


class Spec:
    """Translation spec of one Python function.

    name        Lean name of the generated definition
    header      implicit binders / instance arguments (Lean text), shared by all emitted definitions
    params      [(lean_name, lean_type)] explicit parameters of the generated definition, in order
    types       {python local name: lean type}   (every variable that is loop state needs one)
    rename      {python name: lean name}
    expr_map    {ast.unparse(expr): lean text}      whole-expression renderings (checked first, at every level)
    call_map    {ast.unparse(func): lean function}  f(args...) -> (lean args...)
    index_map   {ast.unparse(container): template with {k}}   container[k]
    index_set   {ast.unparse(container): (lean var, template with {k} {v} {old})}  container[k] = v
    attr_set    {ast.unparse(target): (lean var, template with {v} {old})}          self.attr = v
    stmt_map    {ast.unparse(stmt): [(lean var, lean text), ...]}   verbatim statements (may be [] = skip)
    pop_map     {ast.unparse(stmt): (elem var, stream var)}         `x = <draw>`  ->  match stream with | [] => none | x :: stream
    literals    {python literal repr: lean text}
    ret         lean text template for the value of `return e` ({e}), default "{e}"
    result_type lean type of the value returned (before Option wrapping)
    end_return  lean text returned when control reaches the end of the function (Python returns None)
    asserts     "drop" | "error": drop assert statements, or leave through `assert_exit` (a Lean text)
    body_filter optional callable(list of stmts) -> list of stmts (slice of the function body that is translated)
    defined     python names defined on entry (parameters and self-state), in Lean spelling
    """

    def __init__(self, **kw):
        self.name = kw["name"]
        self.header = kw.get("header", "")
        self.params = kw["params"]
        self.types = dict(kw.get("types", {}))
        self.rename = dict(kw.get("rename", {}))
        self.expr_map = dict(kw.get("expr_map", {}))
        self.call_map = dict(kw.get("call_map", {}))
        self.index_map = dict(kw.get("index_map", {}))
        self.index_set = dict(kw.get("index_set", {}))
        self.attr_set = dict(kw.get("attr_set", {}))
        self.stmt_map = dict(kw.get("stmt_map", {}))
        self.pop_map = dict(kw.get("pop_map", {}))
        self.literals = dict(kw.get("literals", {}))
        self.ret = kw.get("ret", "{e}")
        self.result_type = kw["result_type"]
        self.end_return = kw.get("end_return")
        self.test_map = dict(kw.get("test_map", {}))            # {unparse(test expression): lean Prop} used only where the expression is a condition
        self.ret_option = kw.get("ret_option", False)           # the function returns Optional[T]: None -> none, e -> some e
        self.asserts = kw.get("asserts", "drop")                # "drop" | "error" (leave with assert_exit) | "except" (leave with `.error assert_error`)
        self.assert_exit = kw.get("assert_exit")
        self.assert_error = kw.get("assert_error")
        self.body_filter = kw.get("body_filter")
        self.predeclare = list(kw.get("predeclare", []))      # [(lean var, lean init text)]: variables first assigned inside branches
        self.try_passthrough = kw.get("try_passthrough", False)
        self.try_handlers = kw.get("try_handlers", False)       # translate `try: <binds> except E: <handler>`: an error of a bound call runs the handler
        self.raise_map = dict(kw.get("raise_map", {}))          # {distinctive substring of the raise statement: lean error value}
        self.error_type = kw.get("error_type")                  # lean type of the error values: result becomes `Except error_type _`
        self.fuel_error = kw.get("fuel_error")                  # error value a `while` leaves with when the fuel runs out (Except mode)
        self.bind_map = dict(kw.get("bind_map", {}))            # {unparse(stmt): (lean pattern, lean call returning Except)}: error is passed on
        self.drop_calls = list(kw.get("drop_calls", []))
        self.skip_prefixes = list(kw.get("skip_prefixes", []))  # statements whose text starts with one of these are dropped (pinned by prefix only)        # statements `f(...)` with `f` in this list are dropped (logging)
        self.doc = kw.get("doc", "")
        for n, t in self.params:
            self.types.setdefault(n, t)

    @property
    def except_mode(self):
        return bool(self.raise_map) or self.asserts == "except"


class K:
    """continuations of a block: what to emit when it falls through / returns / breaks / continues"""

    def __init__(self, fall, ret, brk=None, cont=None):
        self.fall, self.ret, self.brk, self.cont = fall, ret, brk, cont


def _assigned(stmts, spec):
    """lean names assigned anywhere in stmts (in first-assignment order)"""
    out = []

    def add(n):
        if n not in out:
            out.append(n)

    def tgt(t):
        if isinstance(t, ast.Name):
            add(spec.rename.get(t.id, t.id))
        elif isinstance(t, (ast.Tuple, ast.List)):
            for e in t.elts:
                tgt(e)
        elif isinstance(t, ast.Subscript):
            key = ast.unparse(t.value)
            if key in spec.index_set:
                add(spec.index_set[key][0])
            else:
                U("assignment to subscript " + ast.unparse(t))
        elif isinstance(t, ast.Attribute):
            key = ast.unparse(t)
            if key in spec.attr_set:
                add(spec.attr_set[key][0])
            else:
                U("assignment to attribute " + key)
        else:
            U("assignment target " + ast.unparse(t))

    def walk(ss):
        for s in ss:
            u = ast.unparse(s)
            if any(u.startswith(pfx) for pfx in spec.skip_prefixes):
                continue
            if u in spec.stmt_map:
                for v, _ in spec.stmt_map[u]:
                    add(v)
                continue
            if u in spec.pop_map:
                add(spec.pop_map[u][0])
                add(spec.pop_map[u][1])
                continue
            if u in spec.bind_map:
                for v in re.findall(r"[A-Za-z_][A-Za-z_0-9']*", spec.bind_map[u][0]):
                    add(v)
                continue
            if isinstance(s, ast.Assign):
                for t in s.targets:
                    tgt(t)
                if isinstance(s.value, ast.Call) and isinstance(s.value.func, ast.Attribute) and s.value.func.attr == "pop":
                    tgt(s.value.func.value)
            elif isinstance(s, ast.AugAssign):
                tgt(s.target)
            elif isinstance(s, ast.Expr) and isinstance(s.value, ast.Call) and isinstance(s.value.func, ast.Attribute) \
                    and s.value.func.attr in ("append", "extend", "pop"):
                tgt(s.value.func.value)
            elif isinstance(s, ast.If):
                walk(s.body)
                walk(s.orelse)
            elif isinstance(s, (ast.While, ast.For)):
                if isinstance(s, ast.For):
                    pass        # the loop pattern variables are local to the loop
                walk(s.body)
            elif isinstance(s, ast.Try) and spec.try_passthrough:
                walk(s.body)
            elif isinstance(s, ast.Try) and spec.try_handlers:
                walk(s.body)
                for h_ in s.handlers:
                    walk(h_.body)
            elif isinstance(s, ast.Assign) is False and isinstance(s, (ast.Return, ast.Break, ast.Continue, ast.Assert, ast.Expr, ast.Pass, ast.Raise)):
                pass
            else:
                U("statement " + u[:80])
    walk(stmts)
    return out


def _prune_header(header, text):
    """the implicit type binders `{A B : Type}` of `header` restricted to the type variables that occur in `text` (an auxiliary definition
    that does not mention a type variable cannot have it inferred at its call sites); instance binders are kept when all the type variables
    they mention are kept.  Only applied when some type variable is unused."""
    groups = re.findall(r"\{([^}:]+):\s*Type\}", header)
    names = [n for g in groups for n in g.split()]
    if not names:
        return header
    used = [n for n in names if re.search(r"(?<![A-Za-z0-9_'])%s(?![A-Za-z0-9_'])" % re.escape(n), text)]
    if len(used) == len(names):
        return header
    out = []
    if used:
        out.append("{%s : Type}" % " ".join(used))
    for inst in re.findall(r"\[[^\]]+\]", header):
        mentioned = [n for n in names if re.search(r"(?<![A-Za-z0-9_'])%s(?![A-Za-z0-9_'])" % re.escape(n), inst)]
        if all(n in used for n in mentioned):
            out.append(inst)
    return " ".join(out)


def _has_while(node, spec):
    """a `while` that has to be translated (one the spec pins verbatim through stmt_map is a plain statement)"""
    return any(isinstance(n, ast.While) and ast.unparse(n) not in spec.stmt_map for n in ast.walk(node))


def _only_logging(stmts):
    """statements that only write log output (calls of logging.*, loops over such calls)"""
    for st in stmts:
        if isinstance(st, ast.Expr) and isinstance(st.value, ast.Call) and ast.unparse(st.value.func).startswith("logging."):
            continue
        if isinstance(st, ast.For) and not st.orelse and _only_logging(st.body):
            continue
        return False
    return True


def _has_ctrl(stmts, kinds, spec):
    """does the block contain a control transfer of one of `kinds` at this loop level (Return: any level)"""
    for s in stmts:
        if ast.unparse(s) in spec.stmt_map or any(ast.unparse(s).startswith(pfx) for pfx in spec.skip_prefixes):
            continue
        if ast.unparse(s) in spec.bind_map:
            if "raise" in kinds:
                return True
            continue
        if isinstance(s, ast.Return) and "return" in kinds:
            return True
        if isinstance(s, ast.Break) and "break" in kinds:
            return True
        if isinstance(s, ast.Continue) and "continue" in kinds:
            return True
        if isinstance(s, ast.Assert) and "assert" in kinds and spec.asserts == "error":
            return True
        if isinstance(s, ast.Raise) and "raise" in kinds:
            return True
        if isinstance(s, ast.Assert) and "raise" in kinds and spec.asserts == "except":
            return True
        if isinstance(s, ast.If):
            if _has_ctrl(s.body, kinds, spec) or _has_ctrl(s.orelse, kinds, spec):
                return True
        if isinstance(s, ast.While) and "loop" in kinds:
            return True
        if isinstance(s, (ast.While, ast.For)):
            inner = [k for k in kinds if k in ("return", "assert", "loop", "raise")]
            if inner and _has_ctrl(s.body, inner, spec):
                return True
        if isinstance(s, ast.Try) and spec.try_passthrough and _has_ctrl(s.body, kinds, spec):
            return True
        if isinstance(s, ast.Try) and spec.try_handlers and (_has_ctrl(s.body, kinds, spec) or any(_has_ctrl(h_.body, kinds, spec) for h_ in s.handlers)):
            return True
    return False


class Translator:
    def __init__(self, spec, fn):
        self.spec = spec
        self.fn = fn
        self.aux = []           # emitted auxiliary definitions (list of list of lines)
        self.nloop = 0
        self.dropped = []       # statements dropped (asserts, docstrings), recorded in the header
        body_ = list(fn.body)
        if spec.body_filter:
            try:
                body_ = spec.body_filter(body_)
            except Exception:
                pass            # reported when the function is translated
        self.uses_fuel = any(_has_while(st, spec) for st in body_)
        self.optional = self.uses_fuel or bool(spec.pop_map)

    # ------------------------------------------------------------------ expressions
    def name(self, n):
        return self.spec.rename.get(n, n)

    def test(self, e):
        """a condition (`if` / `while` / `assert` test): Python truthiness of a non-boolean value is a modelling decision, given by test_map"""
        u = ast.unparse(e)
        if u in self.spec.test_map:
            return self.spec.test_map[u]
        return self.expr(e)

    def expr(self, e):
        sp = self.spec
        u = ast.unparse(e)
        if u in sp.expr_map:
            return sp.expr_map[u]
        if isinstance(e, ast.Name):
            return self.name(e.id)
        if isinstance(e, ast.Constant):
            if repr(e.value) in sp.literals:
                return sp.literals[repr(e.value)]
            v = e.value
            if isinstance(v, bool):
                return "true" if v else "false"
            if isinstance(v, int):
                return str(v) if v >= 0 else "(%d)" % v
            if isinstance(v, float) and v.is_integer() and v >= 0:
                return str(int(v))
            if isinstance(v, str):
                return '"' + v.replace("\\", "\\\\").replace('"', '\\"') + '"'
            U("literal " + repr(v))
        if isinstance(e, ast.BinOp) and type(e.op) in _BIN:
            return "(%s %s %s)" % (self.expr(e.left), _BIN[type(e.op)], self.expr(e.right))
        if isinstance(e, ast.UnaryOp) and isinstance(e.op, ast.USub):
            return "(-%s)" % self.expr(e.operand)
        if isinstance(e, ast.UnaryOp) and isinstance(e.op, ast.Not):
            return "(¬ %s)" % self.expr(e.operand)
        if isinstance(e, ast.BoolOp):
            op = " ∧ " if isinstance(e.op, ast.And) else " ∨ "
            return "(" + op.join(self.expr(v) for v in e.values) + ")"
        if isinstance(e, ast.Compare) and len(e.ops) == 1:
            l, r = self.expr(e.left), self.expr(e.comparators[0])
            o = e.ops[0]
            if type(o) in _CMP:
                return "(%s %s %s)" % (l, _CMP[type(o)], r)
            if isinstance(o, ast.In):
                return "(%s ∈ %s)" % (l, r)
            if isinstance(o, ast.NotIn):
                return "(¬ (%s ∈ %s))" % (l, r)
            U("comparison " + u)
        if isinstance(e, ast.Call):
            f = ast.unparse(e.func)
            if f in sp.call_map and not e.keywords:
                return "(" + " ".join([sp.call_map[f]] + [self.expr(a) for a in e.args]) + ")"
            U("call " + u[:80])
        if isinstance(e, ast.Subscript):
            c = ast.unparse(e.value)
            if c in sp.index_map:
                return "(" + sp.index_map[c].format(k=self.expr(e.slice)) + ")"
            U("subscript " + u[:80])
        if isinstance(e, ast.List):
            return "[" + ", ".join(self.expr(x) for x in e.elts) + "]"
        if isinstance(e, ast.Tuple):
            return "(" + ", ".join(self.expr(x) for x in e.elts) + ")"
        if isinstance(e, ast.ListComp) and len(e.generators) == 1 and not e.generators[0].is_async:
            g = e.generators[0]
            pat = self.pattern(g.target)
            it = self.expr(g.iter)
            out = it
            for c in g.ifs:
                out = "(%s.filter (fun %s => decide %s))" % (out, pat, self.expr(c))
            elt = self.expr(e.elt)
            if elt != pat:
                out = "(%s.map (fun %s => %s))" % (out, pat, elt)
            return out
        U("expression " + u[:80])

    def pattern(self, t):
        if isinstance(t, ast.Name):
            return self.name(t.id)
        if isinstance(t, (ast.Tuple, ast.List)):
            return "(" + ", ".join(self.pattern(x) for x in t.elts) + ")"
        U("pattern " + ast.unparse(t))

    # ------------------------------------------------------------------ statements
    def tuple_of(self, vs):
        return vs[0] if len(vs) == 1 else "(" + ", ".join(vs) + ")"

    def tuple_ty(self, vs):
        ts = [self._ty(v) for v in vs]
        return ts[0] if len(ts) == 1 else "(" + " × ".join(ts) + ")"

    def bind_tuple(self, vs, rhs_lines, rest):
        """let vs := rhs ; rest       (rhs given as lines)"""
        if len(vs) == 1:
            if len(rhs_lines) == 1:
                return ["let %s := %s" % (vs[0], rhs_lines[0])] + rest
            return ["let %s :=" % vs[0]] + ind(rhs_lines) + rest
        head = ["match (" + rhs_lines[0]] + rhs_lines[1:]
        head[-1] = head[-1] + ") with"
        return head + ["| " + self.tuple_of(vs) + " =>"] + ind(rest)

    def simple_assign(self, s):
        """[(lean var, lean rhs text)] for a statement without control flow, or None"""
        sp = self.spec
        u = ast.unparse(s)
        if u in sp.stmt_map:
            return list(sp.stmt_map[u])
        if isinstance(s, ast.Expr) and isinstance(s.value, ast.Constant):
            return []
        if isinstance(s, ast.Pass):
            return []
        if isinstance(s, ast.Expr) and isinstance(s.value, ast.Call) and \
                (ast.unparse(s.value.func) in sp.drop_calls or ast.unparse(s.value.func).startswith("logging.")):
            return []          # log output is never part of a model
        if any(u.startswith(pfx) for pfx in sp.skip_prefixes):
            self.dropped.append(u.split("\n")[0][:80] + " ...")
            return []
        if isinstance(s, ast.Assert) and sp.asserts == "drop":
            self.dropped.append(u[:100])
            return []
        if isinstance(s, ast.Assign) and len(s.targets) == 1:
            t = s.targets[0]
            if isinstance(t, ast.Name):
                return [(self.name(t.id), self.expr(s.value))]
            if isinstance(t, ast.Subscript) and ast.unparse(t.value) in sp.index_set:
                var, tmpl = sp.index_set[ast.unparse(t.value)]
                return [(var, tmpl.format(k=self.expr(t.slice), v=self.expr(s.value), old=var))]
            if isinstance(t, ast.Attribute) and ast.unparse(t) in sp.attr_set:
                var, tmpl = sp.attr_set[ast.unparse(t)]
                return [(var, tmpl.format(v=self.expr(s.value), old=var))]
            U("assignment " + u[:80])
        if isinstance(s, ast.AugAssign) and type(s.op) in _BIN:
            t = s.target
            if isinstance(t, ast.Name):
                n = self.name(t.id)
                return [(n, "(%s %s %s)" % (n, _BIN[type(s.op)], self.expr(s.value)))]
            if isinstance(t, ast.Subscript) and ast.unparse(t.value) in sp.index_set and ast.unparse(t.value) in sp.index_map:
                var, tmpl = sp.index_set[ast.unparse(t.value)]
                k = self.expr(t.slice)
                cur = "(" + sp.index_map[ast.unparse(t.value)].format(k=k) + ")"
                return [(var, tmpl.format(k=k, v="(%s %s %s)" % (cur, _BIN[type(s.op)], self.expr(s.value)), old=var))]
            U("augmented assignment " + u[:80])
        if isinstance(s, ast.Expr) and isinstance(s.value, ast.Call) and isinstance(s.value.func, ast.Attribute):
            f = s.value.func
            if f.attr == "append" and len(s.value.args) == 1:
                tu = ast.unparse(f.value)
                if isinstance(f.value, ast.Name):
                    n = self.name(f.value.id)
                    return [(n, "(%s ++ [%s])" % (n, self.expr(s.value.args[0])))]
                if tu in sp.attr_set:
                    var, tmpl = sp.attr_set[tu]
                    return [(var, tmpl.format(v="(%s ++ [%s])" % (self.expr(f.value), self.expr(s.value.args[0])), old=var))]
            if f.attr == "extend" and len(s.value.args) == 1:
                if isinstance(f.value, ast.Name):
                    n = self.name(f.value.id)
                    return [(n, "(%s ++ %s)" % (n, self.expr(s.value.args[0])))]
                if isinstance(f.value, ast.Subscript) and ast.unparse(f.value.value) in sp.index_set:
                    var, tmpl = sp.index_set[ast.unparse(f.value.value)]
                    k = self.expr(f.value.slice)
                    cur = "(" + sp.index_map[ast.unparse(f.value.value)].format(k=k) + ")"
                    return [(var, tmpl.format(k=k, v="(%s ++ %s)" % (cur, self.expr(s.value.args[0])), old=var))]
        return None

    def block(self, stmts, k, defined):
        """lines of a Lean term for `stmts` followed by the continuation k; `defined` = lean names in scope"""
        sp = self.spec
        if not stmts:
            return k.fall(defined)
        s, rest = stmts[0], stmts[1:]
        u = ast.unparse(s)
        if u in sp.bind_map:
            pat, call = sp.bind_map[u]
            vs = set(re.findall(r"[A-Za-z_][A-Za-z_0-9']*", pat))
            return ["match %s with" % call, "| Except.error e__ => Except.error e__", "| Except.ok %s =>" % pat] + ind(self.block(rest, k, defined | vs))
        if u in sp.pop_map:
            x, stream = sp.pop_map[u]
            return ["match %s with" % stream, "| [] => none", "| %s :: %s =>" % (x, stream)] + \
                ind(self.block(rest, k, defined | {x}))
        if isinstance(s, ast.Expr) and isinstance(s.value, ast.Call) and isinstance(s.value.func, ast.Attribute) \
                and s.value.func.attr == "pop" and isinstance(s.value.func.value, ast.Name):
            U("pop as a statement " + u)
        if isinstance(s, ast.Assign) and len(s.targets) == 1 and isinstance(s.targets[0], ast.Name) \
                and isinstance(s.value, ast.Call) and isinstance(s.value.func, ast.Attribute) and s.value.func.attr == "pop" \
                and isinstance(s.value.func.value, ast.Name) and len(s.value.args) == 1 \
                and isinstance(s.value.args[0], ast.Constant) and s.value.args[0].value == 0:
            # x = q.pop(0)      (IndexError on the empty list = `none`)
            if not self.optional:
                U("pop(0) in a function without Option result")
            q = self.name(s.value.func.value.id)
            x = self.name(s.targets[0].id)
            return ["match %s with" % q, "| [] => none", "| %s :: %s =>" % (x, q)] + ind(self.block(rest, k, defined | {x}))
        sa = self.simple_assign(s)
        if sa is not None:
            out = []
            d = set(defined)
            for v, rhs in sa:
                ty = (" : " + sp.types[v]) if v in sp.types else ""
                out.append("let %s%s := %s" % (v, ty, rhs))
                d.add(v)
            return out + self.block(rest, k, d)
        if isinstance(s, ast.Return):
            if sp.ret_option:       # Optional[...] result: `return None` is none, `return e` is some e
                if s.value is None or (isinstance(s.value, ast.Constant) and s.value.value is None):
                    return k.ret("none", defined)
                return k.ret("(some %s)" % self.expr(s.value), defined)
            return k.ret(self.expr(s.value) if s.value is not None else None, defined)
        if isinstance(s, ast.Break):
            if k.brk is None:
                U("break outside a loop")
            return k.brk(defined)
        if isinstance(s, ast.Continue):
            if k.cont is None:
                U("continue outside a loop")
            return k.cont(defined)
        if isinstance(s, ast.Raise):
            if not sp.raise_map:
                U("raise " + u[:60])
            for key, val in sp.raise_map.items():
                if key in u:
                    return ["Except.error " + val]
            U("raise statement not in the spec's raise_map: " + u[:80])
        if isinstance(s, ast.Assert) and sp.asserts == "except":
            return ["if %s then" % self.test(s.test)] + ind(self.block(rest, k, defined)) + ["else"] + ind(["Except.error " + sp.assert_error])
        if isinstance(s, ast.Assert) and sp.asserts == "error":
            return ["if %s then" % self.test(s.test)] + ind(self.block(rest, k, defined)) + ["else"] + \
                ind(k.ret(None, defined, error=True))
        if isinstance(s, ast.If):
            ctrl = ("return", "break", "continue", "assert", "loop", "raise")
            if _has_ctrl(s.body, ctrl, sp) or _has_ctrl(s.orelse, ctrl, sp):
                # duplicate the continuation into both branches
                return ["if %s then" % self.test(s.test)] + ind(self.block(list(s.body) + rest, k, defined)) + ["else"] + \
                    ind(self.block(list(s.orelse) + rest, k, defined))
            mod = [v for v in _assigned(list(s.body) + list(s.orelse), sp)]
            # variables first defined inside the branches and not needed later are branch-local
            live = [v for v in mod if v in defined or self._used_later(v, rest)]
            both = set(_assigned(list(s.body), sp)) & set(_assigned(list(s.orelse), sp))
            for v in live:
                if v not in defined and v not in both:
                    U("variable %s defined in only one branch and used later" % v)
            if not live:
                return self.block(rest, k, defined)
            tup = self.tuple_of(live)
            kb = K(lambda d: [tup], None)
            tb_ = self.block(list(s.body), kb, defined)
            eb = self.block(list(s.orelse), kb, defined)
            rhs = ["if %s then" % self.test(s.test)] + ind(tb_) + ["else"] + ind(eb)
            if len(tb_) == 1 and len(eb) == 1:
                rhs = ["if %s then %s else %s" % (self.test(s.test), tb_[0], eb[0])]
            return self.bind_tuple(live, rhs, self.block(rest, k, defined))
        if isinstance(s, ast.Try) and sp.try_passthrough and not s.orelse and not s.finalbody and \
                all(isinstance(h.body[-1], ast.Raise) and (len(h.body) <= 2 or _only_logging(h.body[:-1])) for h in s.handlers):
            self.dropped.append("except-handlers that only re-raise: " + ", ".join(ast.unparse(h.type) if h.type else "bare" for h in s.handlers))
            return self.block(list(s.body) + rest, k, defined)
        if isinstance(s, ast.Try) and sp.try_handlers and sp.except_mode and len(s.handlers) == 1 and not s.orelse and not s.finalbody:
            # an error raised by a call bound in the body (bind_map) is caught: the handler runs, then control continues after the try
            vs = [v for v in _assigned(list(s.body), sp)]
            tup = self.tuple_of(vs) if vs else "()"
            body_lines = self.block(list(s.body), K(lambda d: ["Except.ok " + tup], None), set(defined))
            handler_lines = self.block(list(s.handlers[0].body) + rest, k, set(defined))
            rest_lines = self.block(rest, k, set(defined) | set(vs))
            head = ["match (" + body_lines[0]] + body_lines[1:]
            head[-1] = head[-1] + ") with"
            return head + ["| Except.error _ =>"] + ind(handler_lines) + ["| Except.ok %s =>" % tup] + ind(rest_lines)
        if isinstance(s, ast.While):
            return self.while_loop(s, rest, k, defined)
        if isinstance(s, ast.For):
            return self.for_loop(s, rest, k, defined)
        U("statement " + u[:80])

    def _used_later(self, v, rest):
        return self._rbw(v, rest) == "read"

    def _names_in(self, node):
        out = set()
        for n in ast.walk(node):
            if isinstance(n, ast.Name):
                out.add(self.name(n.id))
        # whole-expression renderings may mention Lean variables
        for n in ast.walk(node):
            if isinstance(n, ast.expr):
                u = ast.unparse(n)
                if u in self.spec.expr_map:
                    out |= set(re.findall(r"[A-Za-z_][A-Za-z_0-9']*", self.spec.expr_map[u]))
        return out

    def _rbw(self, v, stmts):
        """is `v` read before it is (re)written in `stmts`?  'read' | 'killed' | 'none' (conservative: 'read' when in doubt)"""
        sp = self.spec
        for s in stmts:
            u = ast.unparse(s)
            if u in sp.stmt_map:
                for var, rhs in sp.stmt_map[u]:
                    if re.search(r"(?<![A-Za-z_0-9'.])%s(?![A-Za-z_0-9'])" % re.escape(v), rhs):
                        return "read"
                    if var == v:
                        return "killed"
                continue
            if u in sp.pop_map:
                x, stream = sp.pop_map[u]
                if stream == v:
                    return "read"
                if x == v:
                    return "killed"
                continue
            if isinstance(s, ast.Assign) and len(s.targets) == 1 and isinstance(s.targets[0], ast.Name):
                if v in self._names_in(s.value):
                    return "read"
                if self.name(s.targets[0].id) == v:
                    return "killed"
                continue
            if isinstance(s, ast.If):
                if v in self._names_in(s.test):
                    return "read"
                a, b = self._rbw(v, s.body), self._rbw(v, s.orelse)
                if "read" in (a, b):
                    return "read"
                if a == "killed" and b == "killed":
                    return "killed"
                continue
            if isinstance(s, (ast.For, ast.While)):
                head = s.iter if isinstance(s, ast.For) else s.test
                if v in self._names_in(head) or self._rbw(v, s.body) == "read":
                    return "read"
                continue
            if isinstance(s, ast.Try):
                r = self._rbw(v, s.body)
                if r != "none":
                    return r
                continue
            if v in self._names_in(s):
                return "read"
        return "none"

    def _mapped_text(self, st):
        u = ast.unparse(st)
        out = []
        if u in self.spec.stmt_map:
            out += [rhs for _, rhs in self.spec.stmt_map[u]]
        return out

    def _free(self, lines, defined, exclude):
        text = "\n".join(lines)
        toks = set(re.findall(r"[A-Za-z_][A-Za-z_0-9']*", text))
        return [v for v in sorted(defined) if v in toks and v not in exclude]

    def _order(self, names):
        """parameters first (in declaration order), then the rest alphabetically"""
        p = [n for n, _ in self.spec.params]
        return [n for n in p if n in names] + sorted(n for n in names if n not in p)

    def while_loop(self, s, rest, k, defined):
        sp = self.spec
        if s.orelse:
            U("while/else")
        self.nloop += 1
        aux = "%s_while%d" % (sp.name, self.nloop)
        state = [v for v in _assigned(s.body, sp) if v in defined]
        if not state:
            U("while loop without state")
        if _has_ctrl(s.body, ("return",), sp):
            U("return inside while")
        st_tuple = self.tuple_of(state)
        call_holder = {}

        def again(d):
            return [call_holder["call"]]
        exc = sp.except_mode
        if exc and not sp.fuel_error:
            U("while in a function that raises: the spec must give fuel_error")
        OK = "Except.ok " if exc else "some "
        FAIL = ("Except.error " + sp.fuel_error) if exc else "none"
        kb = K(again, None, brk=lambda d: [OK + st_tuple], cont=again)
        call_holder["call"] = "%s __INV__ fuel %s" % (aux, " ".join(state))
        body = self.block(list(s.body), kb, set(defined))
        cond = self.test(s.test)
        inv = self._order(self._free(body + [cond], defined, set(state)))
        call = ("%s %s fuel %s" % (aux, " ".join(inv), " ".join(state))).replace("  ", " ")
        body = [ln.replace("%s __INV__ fuel" % aux, ("%s %s fuel" % (aux, " ".join(inv))).replace("  ", " ")) for ln in body]
        sig_inv = " ".join("(%s : %s)" % (v, self._ty(v)) for v in inv)
        rty = ("Except %s (%s)" % (sp.error_type, self.tuple_ty(state))) if exc else ("Option %s" % self.tuple_ty(state))
        lines = ["/-- `while %s:` of `%s` (fuel = maximal number of iterations) -/" % (ast.unparse(s.test), self.fn.name),
                 ("def %s %s %s : Nat → %s → %s" % (aux, sp.header, sig_inv, " → ".join(self._ty(v) for v in state), rty)).replace("  ", " "),
                 "  | 0, %s => %s" % (", ".join("_" for _ in state), FAIL),
                 "  | fuel + 1, %s =>" % ", ".join(state),
                 "    if %s then" % cond] + ind(body, 3) + ["    else " + OK + st_tuple]
        self.aux.append(lines)
        after = self.block(rest, k, defined)
        if exc:
            return ["match %s with" % call, "| Except.error e__ => Except.error e__", "| Except.ok %s =>" % st_tuple] + ind(after)
        return ["match %s with" % call, "| none => none", "| some %s =>" % st_tuple] + ind(after)

    def _ty(self, v):
        if v not in self.spec.types:
            U("no Lean type given for variable " + v)
        t = self.spec.types[v]
        return "(" + t + ")" if "→" in t and not t.startswith("(") else t

    def for_loop(self, s, rest, k, defined):
        sp = self.spec
        if s.orelse:
            U("for/else")
        self.nloop += 1
        aux = "%s_for%d" % (sp.name, self.nloop)
        pat = self.pattern(s.target)
        pat_vars = set(re.findall(r"[A-Za-z_][A-Za-z_0-9']*", pat))
        it = self.expr(s.iter)
        ukey = ast.unparse(s.iter)
        elem_ty = sp.types.get("for:" + ukey) or U("no element type given for iteration over " + ukey)
        if " " in elem_ty and not elem_ty.startswith("("):
            elem_ty = "(" + elem_ty + ")"
        state = [v for v in _assigned(s.body, sp) if v in defined]
        hasret = _has_ctrl(s.body, ("return",), sp)
        err = sp.asserts == "error" and _has_ctrl(s.body, ("assert",), sp)
        exc = sp.except_mode and _has_ctrl(s.body, ("raise",), sp)
        if err and exc:
            U("assert-as-error and raise in one loop")
        if hasret and (err or exc):
            U("return together with assert-exit / raise in one for loop")
        if hasret:
            return self.for_loop_ret(s, rest, k, defined, aux, pat, pat_vars, it, ukey, elem_ty, state)
        opt = _has_while(s, sp) or any(ast.unparse(n) in sp.pop_map for n in ast.walk(s) if isinstance(n, ast.stmt))
        if opt:
            U("while / stream draw nested in for")
        if not state and not exc:
            U("for loop without state")
        st_tuple = self.tuple_of(state) if state else "()"
        st_ty = self.tuple_ty(state) if state else "Unit"
        res_tuple = "(%s, true)" % st_tuple if err else st_tuple
        res_ty = "(%s × Bool)" % st_ty if err else st_ty
        if exc:
            res_tuple = "Except.ok " + st_tuple
            res_ty = "Except %s (%s)" % (sp.error_type, st_ty)

        def again(d):
            return [("%s __INV__ rest__ %s" % (aux, " ".join(state))).rstrip()]

        def on_ret(e, d, error=False):
            if not error:
                U("return inside for")
            return ["(%s, false)" % st_tuple]
        kb = K(again, on_ret if err else None, brk=lambda d: [res_tuple], cont=again)
        body = self.block(list(s.body), kb, set(defined) | pat_vars)
        inv = self._order(self._free(body, defined, set(state) | pat_vars))
        inv_s = (" " + " ".join(inv)) if inv else ""
        body = [ln.replace("%s __INV__ rest__" % aux, "%s%s rest__" % (aux, inv_s)) for ln in body]
        sig_inv = " ".join("(%s : %s)" % (v, self._ty(v)) for v in inv)
        comma = (", " + ", ".join(state)) if state else ""
        lines = ["/-- `for %s in %s:` of `%s` -/" % (ast.unparse(s.target), ukey, self.fn.name),
                 ("def %s %s %s : %s" % (aux, _prune_header(sp.header, sig_inv + " " + elem_ty + " " + " ".join(self._ty(v) for v in state) + " " + res_ty + " " + " ".join(body)), sig_inv, " → ".join(["List " + elem_ty] + [self._ty(v) for v in state] + [res_ty]))).replace("  ", " "),
                 "  | []%s => %s" % (comma, res_tuple),
                 "  | %s :: rest__%s =>" % (pat, comma)] + ind(body, 2)
        self.aux.append(lines)
        after = self.block(rest, k, defined)
        call = [("%s%s %s %s" % (aux, inv_s, it, " ".join(state))).rstrip()]
        if exc:
            return ["match %s with" % call[0], "| Except.error e__ => Except.error e__", "| Except.ok %s =>" % (st_tuple if state else "_")] + ind(after)
        if err:
            return ["match %s with" % call[0], "| (%s, false) =>" % st_tuple] + ind(k.ret(None, defined, error=True)) + \
                ["| (%s, true) =>" % st_tuple] + ind(after)
        return self.bind_tuple(state, call, after)

    def for_loop_ret(self, s, rest, k, defined, aux, pat, pat_vars, it, ukey, elem_ty, state):
        """a `for` whose body may `return e`: the auxiliary definition yields `Py.Flow.ret e` (leave the function with e)
        or `Py.Flow.next state` (the loop ran to its end or was left by `break`)"""
        sp = self.spec
        opt = _has_while(s, sp) or any(ast.unparse(n) in sp.pop_map for n in ast.walk(s) if isinstance(n, ast.stmt))
        if opt:
            U("while / stream draw nested in for")
        rty = sp.types.get("return") or sp.result_type
        st_tuple = self.tuple_of(state) if state else "()"
        st_ty = self.tuple_ty(state) if state else "Unit"
        res_next = "Py.Flow.next " + st_tuple
        res_ty = "Py.Flow (%s) (%s)" % (rty, st_ty)

        def again(d):
            return [("%s __INV__ rest__ %s" % (aux, " ".join(state))).rstrip()]

        def on_ret(e, d, error=False):
            if error:
                U("assert-exit inside a for loop with return")
            return ["Py.Flow.ret (%s)" % ("()" if e is None else e)]
        kb = K(again, on_ret, brk=lambda d: [res_next], cont=again)
        body = self.block(list(s.body), kb, set(defined) | pat_vars)
        inv = self._order(self._free(body, defined, set(state) | pat_vars))
        inv_s = (" " + " ".join(inv)) if inv else ""
        body = [ln.replace("%s __INV__ rest__" % aux, "%s%s rest__" % (aux, inv_s)) for ln in body]
        sig_inv = " ".join("(%s : %s)" % (v, self._ty(v)) for v in inv)
        arrow = " → ".join(["List " + elem_ty] + [self._ty(v) for v in state] + [res_ty])
        comma = (", " + ", ".join(state)) if state else ""
        lines = ["/-- `for %s in %s:` of `%s` (the body may return) -/" % (ast.unparse(s.target), ukey, self.fn.name),
                 ("def %s %s %s : %s" % (aux, _prune_header(sp.header, sig_inv + " " + arrow + " " + " ".join(body)), sig_inv, arrow)).replace("  ", " "),
                 "  | []%s => %s" % (comma, res_next),
                 "  | %s :: rest__%s =>" % (pat, comma)] + ind(body, 2)
        self.aux.append(lines)
        after = self.block(rest, k, defined)
        call = ("%s%s %s %s" % (aux, inv_s, it, " ".join(state))).rstrip()
        return ["match %s with" % call, "| Py.Flow.ret r__ =>"] + ind(k.ret("r__", defined)) + ["| Py.Flow.next %s =>" % (st_tuple if state else "_")] + ind(after)

    # ------------------------------------------------------------------ function
    def function(self):
        sp = self.spec
        body = list(self.fn.body)
        if body and isinstance(body[0], ast.Expr) and isinstance(body[0].value, ast.Constant) and isinstance(body[0].value.value, str):
            body = body[1:]
        if sp.body_filter:
            body = sp.body_filter(body)
        wrap = (lambda t: "some " + t) if self.optional else (lambda t: t)
        if sp.except_mode:
            if sp.pop_map:
                U("raise together with stream draws")
            wrap = lambda t: "Except.ok " + t      # noqa: E731

        def on_ret(e, d, error=False):
            if error:
                return [wrap(sp.assert_exit)]
            if e is None:
                e = "()"
            return [wrap(sp.ret.format(e=e))]

        def on_fall(d):
            if sp.end_return is None:
                U("control reaches the end of the function and the spec gives no end_return")
            return [wrap(sp.end_return)]
        defined = set(n for n, _ in sp.params)
        pre = []
        for v, init in sp.predeclare:
            pre.append("let %s : %s := %s" % (v, self._ty(v), init))
            defined.add(v)
        lines = pre + self.block(body, K(on_fall, on_ret), defined)
        params = " ".join("(%s : %s)" % (n, t) for n, t in sp.params)
        rty = ("Option (%s)" % sp.result_type) if self.optional else sp.result_type
        if sp.except_mode:
            rty = "Except %s (%s)" % (sp.error_type, sp.result_type)
        fuel = "(fuel : Nat) " if self.uses_fuel else ""
        main = ["/-- `%s` -- %s -/" % (self.fn.name, sp.doc),
                ("def %s %s %s%s : %s :=" % (sp.name, sp.header, fuel, params, rty)).replace("  ", " ")] + ind(lines)
        out = []
        for a in self.aux:
            out += a + [""]
        out += main
        return out


def find(tree, *path):
    node = tree
    for name in path:
        for ch in ast.iter_child_nodes(node):
            if isinstance(ch, (ast.ClassDef, ast.FunctionDef)) and ch.name == name:
                node = ch
                break
        else:
            U("cannot find %s" % ".".join(path))
    return node


def translate(src, path, spec):
    fn = find(ast.parse(src), *path)
    tr = Translator(spec, fn)
    lines = tr.function()
    return "\n".join(lines) + "\n", {"dropped": tr.dropped, "aux": len(tr.aux)}
