"""Translation specs: which Python functions of /repo are re-translated to Lean on every run, and the
modelling decisions (types, renderings of attribute accesses and external calls) for each.

One generated file per group, so that a construct the translator does not support (or an ill-typed
result) breaks the tie of the affected properties only.
"""
import ast

from .py2lean import Spec

ORD = "{α : Type} [Add α] [Div α] [OfNat α 0] [OfNat α 1] [LT α] [LE α] [DecidableLT α] [DecidableLE α]"
ORD_P = "{α : Type} [Add α] [OfNat α 0] [LT α] [LE α] [DecidableLT α] [DecidableLE α]"
TSS = "{Tm St Sy : Type} [LT Tm] [LE Tm] [Sub Tm] [OfNat Tm 0] [DecidableLT Tm] [DecidableLE Tm]"
MRG = "{Tm Sy : Type} [DecidableEq Tm]"

_INC_STMT = "if spike_sym in self.initial_values.keys():\n    state_at_t_curr[spike_sym] += self.shape_starting_values[spike_sym]"


def _merge_slice(body):
    """set_spike_times: from `self.all_spike_times = []` up to and including the double loop"""
    out, on = [], False
    for s in body:
        if ast.unparse(s).startswith("self.all_spike_times = []"):
            on = True
        if on:
            out.append(s)
        if on and isinstance(s, ast.For):
            break
    return out


def _edges_keep(body):
    return body


MIX = "{α : Type} [Add α] [Sub α] [LT α] [LE α] [DecidableLT α] [DecidableLE α] [Inhabited α] [OfNat α 0]"

_HMIN_WARN = ("if h_min < h_min_lower_bound:\n    estr = 'Integration step below %.e (s=%.f). Please check your ODE.' % (h_min_lower_bound, h_min)\n"
              "    logging.warning(estr)\n    if raise_errors:\n        raise Exception(estr)")
_IDX_OF_SHAPE = "idx = [str(sym) for sym in list(self._system_of_shapes.x_)].index(str(shape.symbol))"
_IDX_OF_SYM = "idx = [str(sym_) for sym_ in list(self._system_of_shapes.x_)].index(sym)"


def _main_loop(body):
    """integrate_ode: the statements of the `try:` block from `h_min = np.inf` up to and including the main `while`"""
    for s in body:
        if isinstance(s, ast.Try):
            out = []
            for st in s.body:
                if ast.unparse(st).startswith("time_start ="):
                    continue
                out.append(st)
                if isinstance(st, ast.While):
                    return out
    raise ValueError("main loop of integrate_ode not found")


def _assembly_slice(body):
    """generate_propagator_solver: `P_expr = {}`, `update_expr = {}` and the loop over the rows"""
    out = []
    for s in body:
        u = ast.unparse(s)
        if u in ("P_expr = {}", "update_expr = {}") or isinstance(s, ast.For):
            out.append(s)
    return out


_SIMPLIFY_IF = "if not _is_zero(self.b_[row]):\n    update_expr[str(self.x_[row])] = _custom_simplify_expr(update_expr[str(self.x_[row])])"


def _only_for(body):
    return [s for s in body if isinstance(s, ast.For)]


_FF_FILL = ("for i in range(order):\n    substitute = i + t_\n    Y[i] = derivatives[order].subs(Config().input_time_symbol, substitute)\n"
            "    for j in range(order):\n        X[i, j] = derivatives[j].subs(Config().input_time_symbol, substitute)")
_FF_RESID = "for k in range(order):\n    diff_rhs_lhs -= derivative_factors[k] * derivatives[k]"
_FF_DEFAULT_SYMS = "if all_variable_symbols is None:\n    all_variable_symbols = []"


def _prologue_slice(body):
    """_analysis: from `Config.reset()` up to and including the `simplify_expression` argument"""
    out, on = [], False
    for st in body:
        u = ast.unparse(st)
        if u == "Config.reset()":
            on = True
        if on:
            out.append(st)
        if u.startswith("if simplify_expression:"):
            return out
    raise ValueError("option handling of _analysis not found")


def _param_filter_slice(body):
    """_analysis: the block that copies the supplied parameters a solver refers to into its dictionary"""
    out = [st for st in body if ast.unparse(st).startswith("if 'parameters' in indict.keys():") and "solver_json['parameters'] = {}" in ast.unparse(st)]
    if len(out) != 1:
        raise ValueError("parameter filter of _analysis not found")
    return out


def _scatter_slice(body):
    """_generate_propagator_matrix: `P = sympy.zeros(*A.shape)` and the loop over the connected components"""
    out = [st for st in body if ast.unparse(st) == "P = sympy.zeros(*A.shape)" or (isinstance(st, ast.For) and "get_connected_component_indices" in ast.unparse(st.iter))]
    if len(out) != 2:
        raise ValueError("scatter loop of _generate_propagator_matrix not found")
    return out


def _from_ode_slice(body):
    """from_ode: from `local_symbols_idx = ...` (the split is the callee) up to the re-attachment of the foreign terms"""
    out, on = [], False
    for st in body:
        u = ast.unparse(st)
        if u.startswith("local_symbols_idx ="):
            on = True
        if on:
            out.append(st)
        if u.startswith("if nonlocal_derivative_terms:"):
            return out
    raise ValueError("re-attachment block of from_ode not found")


def _from_shapes_slice(body):
    """from_shapes: `A`, `b`, `c` zero, the second `i = 0` and the loop that fills the rows"""
    out = []
    seen_i0 = 0
    for st in body:
        u = ast.unparse(st)
        if u in ("A = sympy.zeros(N, N)", "b = sympy.zeros(N, 1)", "c = sympy.zeros(N, 1)"):
            out.append(st)
        elif u == "i = 0":
            seen_i0 += 1
            if seen_i0 == 2:
                out.append(st)
        elif isinstance(st, ast.For) and seen_i0 == 2:
            out.append(st)
    if len(out) != 5:
        raise ValueError("row-filling loop of from_shapes not found")
    return out


_HIGHEST = "highest_diff_sym_idx = [k for k, el in enumerate(x) if el == sympy.Symbol(str(shape.symbol) + Config().differential_order_symbol * (shape.order - 1))][0]"


def _partition_slice(body):
    """_analysis: from `solvers_json = []` to the end of the block that generates the numeric solver"""
    out, on = [], False
    for st in body:
        u = ast.unparse(st)
        if u == "solvers_json = []":
            on = True
        if on:
            out.append(st)
        if u.startswith("if len(analytic_syms) < len(shape_sys.x_):"):
            return out
    raise ValueError("solver partition of _analysis not found")


def _preserve_slice(body):
    """_analysis: the `preserve_expressions` argument check and the loop that converts / preserves the update expressions"""
    out = []
    for st in body:
        u = ast.unparse(st)
        if u.startswith("if type(preserve_expressions) is bool:"):
            out.append(st)
        elif isinstance(st, ast.For) and out and "_find_variable_definition" in u:
            out.append(st)
    if len(out) != 2:
        raise ValueError("preserve_expressions block of _analysis not found")
    return out


def _iv_copy_slice(body):
    """_analysis: the loop that copies the initial values of the input into the solver dictionaries"""
    out = [st for st in body if isinstance(st, ast.For) and ast.unparse(st).startswith("for solver_json in solvers_json:\n    solver_json['initial_values'] = {}")]
    if len(out) != 1:
        raise ValueError("initial-value copy loop of _analysis not found")
    return out


_DYN_EXPRS = {"'expression' in dyn.keys()": "(dyn.hasExpression = true)", "'expressions' in dyn.keys()": "(dyn.hasExpressions = true)",
              "[dyn['expression']]": "[dyn.expression]", "dyn['expressions']": "dyn.expressions", "indict['dynamics']": "dyn__"}
_SCC_FILL = {"N = self.A_.shape[0]": [("N", "n")], "A = np.zeros((N, N), dtype=int)": [("A", "(fun _ _ => false)")],
             "scc = scipy.sparse.csgraph.connected_components(A, connection='strong')[1]": [("scc", "(sccLabels A)")]}


def _shapes_pass_slice(body):
    """_from_json_to_shapes: everything but the log lines"""
    return [st for st in body if not ast.unparse(st).startswith("logging.")]


_STEP_LOCALS = {"self._locals.update({str(sym): y[i] for i, sym in enumerate(self._system_of_shapes.x_)})": [("locals_", "(Glue.updateAll locals_ (xs.zip y))")],
                "self._locals.update(self.analytic_integrator.get_value(t))": [("locals_", "(Glue.updateAll locals_ (ana t))")],
                "y = [self._locals[str(sym)] for sym in self.all_variable_symbols]": [("y", "(allSyms.map (fun sym => Glue.get locals_ sym))")]}


def _mixed_init_slice(body):
    """MixedIntegrator.__init__: the handling of `parameters`, of the analytic solver dictionary's parameters and of the list of all variable symbols"""
    keep = ("if parameters is None:", "self._parameters = {k:", "self._locals = self._parameters.copy()", "self.analytic_solver_dict = analytic_solver_dict",
            "if not self.analytic_solver_dict is None:", "self.all_variable_symbols =")
    out = [st for st in body if ast.unparse(st).startswith(keep)]
    if len(out) != 8:
        raise ValueError("parameter / symbol handling of MixedIntegrator.__init__ not found (%d statements)" % len(out))
    return out


def _kwargs_slice(body):
    """_analysis: the construction of the keyword arguments of the StiffnessTester (inside `if len(analytic_syms) < len(x):` / `if not disable_stiffness_check:`)"""
    for st in body:
        if isinstance(st, ast.If) and ast.unparse(st.test) == "len(analytic_syms) < len(shape_sys.x_)":
            for st2 in st.body:
                if isinstance(st2, ast.If) and ast.unparse(st2.test) == "not disable_stiffness_check":
                    out, on = [], False
                    for st3 in st2.body:
                        u = ast.unparse(st3)
                        if u.startswith("kwargs = {}"):
                            on = True
                        if u.startswith("tester = StiffnessTester("):
                            if u != "tester = StiffnessTester(sub_sys, shapes, **kwargs)":
                                raise ValueError("the tester is no longer constructed from exactly these keyword arguments")
                            return out
                        if on:
                            out.append(st3)
    raise ValueError("keyword arguments of the stiffness tester not found in _analysis")


def _solver_dict_tail(body):
    """generate_propagator_solver: the assembly of the returned dictionary (the last four statements)"""
    out = [st for st in body if ast.unparse(st).startswith(("all_state_symbols =", "initial_values =", "solver_dict =", "return solver_dict"))]
    if len(out) != 4:
        raise ValueError("dictionary assembly of generate_propagator_solver not found")
    return out


def _ai_init_slice(body):
    """AnalyticIntegrator.__init__: spike increments (`shape_starting_values`), the copy / parsing of the update expressions, the substitution dictionary
    and the substitution loop"""
    out, on = [], False
    for st in body:
        u = ast.unparse(st)
        if u.startswith("self.shape_starting_values ="):
            on = True
        if u.startswith("self.update_expressions_wrapped ="):
            break
        if on and u != "self.reset()":
            out.append(st)
    if len(out) != 8:
        raise ValueError("dictionary handling of AnalyticIntegrator.__init__ not found (%d statements)" % len(out))
    return out


GROUPS = {
    # ---------------------------------------------------------------------------------- C15
    "PySpikes": {
        "imports": ["OdeVerif.Model.PyPrelude"],
        "file": "odetoolbox/spike_generator.py",
        "functions": [
            (("SpikeGenerator", "_generate_regular_spikes"), Spec(
                name="regularSpikes", header=ORD, params=[("T", "α"), ("rate", "α")],
                types={"spike_times": "List α", "isi": "α", "t": "α"}, result_type="List α",
                doc="literal translation; the result is `none` when the loop needs more than `fuel` iterations")),
            (("SpikeGenerator", "_generate_homogeneous_poisson_spikes"), Spec(
                name="poissonSpikes", header=ORD_P, params=[("T", "α"), ("min_isi", "α"), ("isis", "List α")],
                types={"spike_times": "List α", "isi": "α", "t": "α"}, result_type="List α",
                pop_map={"isi = -math.log(1.0 - random.random()) / rate": ("isi", "isis")},
                call_map={"max": "Py.max"},
                doc="the exponential draw `-math.log(1. - random.random()) / rate` is read from the stream `isis` "
                    "(one element per loop iteration; `none` when the stream or the fuel runs out)")),
        ],
    },
    "PySpikesJson": {
        "imports": ["OdeVerif.Model.PyPrelude", "OdeVerif.Model.Spikes"],
        "file": "odetoolbox/spike_generator.py",
        "functions": [
            (("SpikeGenerator", "spike_times_from_json"), Spec(
                name="spikeTimesFromJson", header="{α : Type} [LE α] [DecidableLE α]",
                params=[("marker", "List Char"), ("sim_time", "α"), ("stimuli", "List (Spikes.Stim α)")],
                types={"spike_times": "Spikes.Trains α", "sym": "List Char", "spikes": "List α", "stimulus": "Spikes.Stim α",
                       "for:stimuli": "Spikes.Stim α", "for:dict.fromkeys(stimulus['variables'])": "List Char"},
                expr_map={"{}": "[]", "dict.fromkeys(stimulus['variables'])": "(Spikes.distinct stimulus.variables)",
                          "sym.replace(\"'\", Config().differential_order_symbol)": "(Spikes.rewritePrimes marker sym)",
                          "not sym in spike_times.keys()": "((Spikes.lookup spike_times sym).isNone = true)",
                          "stimulus['type']": "stimulus.type",
                          "SpikeGenerator._generate_homogeneous_poisson_spikes(T=sim_time, rate=float(stimulus['rate']))": "(stimulus.poissonTrain sym)",
                          "SpikeGenerator._generate_regular_spikes(T=sim_time, rate=float(stimulus['rate']))": "(stimulus.regularTrain sym)"},
                call_map={"np.sort": "Spikes.sortAsc"},
                index_map={"spike_times": "(Spikes.lookup spike_times {k}).getD []"},
                index_set={"spike_times": ("spike_times", "(Spikes.setKey {old} {k} {v})")},
                stmt_map={"str_io = io.StringIO(stimulus['list'])": [],
                          "spikes = np.loadtxt(str_io, ndmin=1)": [("spikes", "stimulus.listRaw")]},
                result_type="Spikes.Trains α",
                doc="the dict `spike_times` is an association list in insertion order; the trains returned by the two generator calls and the "
                    "numbers `np.loadtxt` parsed are fields of the stimulus record; the filter `<= sim_time` and the sort are translated")),
        ],
    },
    # ---------------------------------------------------------------------------------- C12
    "PyIntegrator": {
        "imports": ["OdeVerif.Model.PyPrelude", "OdeVerif.Model.AnalyticIntegrator"],
        "file": None,
        "functions": [
            (("odetoolbox/analytic_integrator.py", "AnalyticIntegrator", "get_value"), Spec(
                name="getValue", header=TSS,
                params=[("p", "AI.Params Tm St Sy"), ("c", "AI.Cache Tm St"), ("t", "Tm")],
                types={"t_curr": "Tm", "state_at_t_curr": "St", "delta_t": "Tm", "spike_t": "Tm", "spike_syms": "List Sy",
                       "for:zip(all_spike_times, all_spike_times_sym)": "(Tm × List Sy)", "for:spike_syms": "Sy"},
                expr_map={"self.enable_caching": "p.enableCaching", "self.t_curr": "c.tcurr", "self.state_at_t_curr": "c.state",
                          "self.enable_cache_update_": "c.cacheUpdate", "zip(all_spike_times, all_spike_times_sym)": "p.spikes"},
                call_map={"self._update_step": "p.step"},
                stmt_map={"self.reset()": [("c", "AI.reset p c")],
                          "all_spike_times, all_spike_times_sym = self.get_sorted_spike_times()": [],
                          _INC_STMT: [("state_at_t_curr", "p.inc spike_sym state_at_t_curr")]},
                attr_set={"self.t_curr": ("c", "{{ {old} with tcurr := {v} }}"),
                          "self.state_at_t_curr": ("c", "{{ {old} with state := {v} }}")},
                ret="(c, {e})", result_type="(AI.Cache Tm St × St)",
                doc="`self` is the pair (immutable parameters `p`, mutable cache `c`); the new cache is returned with the value. "
                    "`_update_step` is `p.step`, the guarded increment of one spike symbol is `p.inc`")),
            (("odetoolbox/integrator.py", "Integrator", "set_spike_times"), Spec(
                name="mergeSpikes", header=MRG, params=[("d", "List (Sy × List Tm)")],
                types={"times": "List Tm", "syms": "List (List Sy)", "idx": "Nat", "sym": "Sy", "t_sp": "Tm",
                       "for:self.spike_times.items()": "(Sy × List Tm)", "for:sym_spike_times": "Tm"},
                expr_map={"self.all_spike_times": "times", "self.all_spike_times_sym": "syms", "self.spike_times.items()": "d"},
                call_map={"self.all_spike_times.index": "Py.index times"},
                index_map={"self.all_spike_times_sym": "Py.getD syms {k}"},
                index_set={"self.all_spike_times_sym": ("syms", "(Py.set {old} {k} {v})")},
                attr_set={"self.all_spike_times": ("times", "{v}"), "self.all_spike_times_sym": ("syms", "{v}")},
                body_filter=_merge_slice, end_return="(times, syms)", result_type="(List Tm × List (List Sy))",
                doc="the merge loops only (`self.all_spike_times` = `times`, `self.all_spike_times_sym` = `syms`, the dict's items = `d`); "
                    "the final `np.argsort` re-ordering is a NumPy contract and stays in the hand model (`sortByTime`)")),
        ],
    },
    # ---------------------------------------------------------------------------------- C01 / C08
    "PyPropagator": {
        "imports": ["OdeVerif.Model.PyPrelude", "OdeVerif.Model.Propagator"],
        "file": "odetoolbox/system_of_shapes.py",
        "functions": [
            (("SystemOfShapes", "generate_propagator_solver"), Spec(
                name="propagatorSolver", header="{n : Nat} {K : Type} [DecidableEq K] [OfNat K 0] [Neg K] [Div K]",
                params=[("A", "Fin n → Fin n → K"), ("b", "Fin n → K"), ("cnz", "Fin n → Bool"), ("order", "Fin n → Nat"), ("Pnz", "Fin n → Fin n → Bool")],
                types={"P_expr": "List (Fin n × Fin n)", "update_expr": "List (Fin n × List (Propagator.Term n K))",
                       "update_expr_terms": "List (Propagator.Term n K)", "particular_solution": "K", "row": "Fin n", "col": "Fin n",
                       "for:range(P_sym.shape[0])": "Fin n", "for:range(P_sym.shape[1])": "Fin n"},
                expr_map={"{}": "[]", "range(P_sym.shape[0])": "(List.finRange n)", "range(P_sym.shape[1])": "(List.finRange n)",
                          "not _is_zero(self.c_[row])": "(cnz row = true)", "not _is_zero(self.b_[row])": "(b row ≠ 0)",
                          "not _is_zero(self.b_[col])": "(b col ≠ 0)", "self.shape_order_from_system_matrix(row)": "(order row)",
                          "not _is_zero(P[row, col])": "(Pnz row col = true)", "_is_zero(self.A_[row, row])": "(A row row = 0)",
                          "-self.b_[row] / self.A_[row, row]": "(-(b row) / (A row row))",
                          "sym_str + ' * ' + str(self.x_[col])": "(Propagator.Term.px row col)",
                          "Config().output_timestep_symbol + ' * (' + str(self.b_[row]) + ')'": "(Propagator.Term.stepB (b row))",
                          "'-' + sym_str + ' * ' + str(self.x_[row])": "(Propagator.Term.negPx row)",
                          "sym_str + ' * (' + str(self.x_[row]) + ' - (' + str(particular_solution) + '))' + ' + (' + str(particular_solution) + ')'":
                              "(Propagator.Term.affine row particular_solution)"},
                stmt_map={"sym_str = '__P__{}__{}'.format(str(self.x_[row]), str(self.x_[col]))": [],
                          "sym_str = P_name.get((row, row), '__P__{}__{}'.format(str(self.x_[row]), str(self.x_[row])))": [],
                          "while sym_str in P_expr:\n    sym_str += '_'": [],
                          "P_name[row, col] = sym_str": [],
                          "P_sym[row, col] = sympy.parsing.sympy_parser.parse_expr(sym_str, global_dict=Shape._sympy_globals)": [],
                          "P_expr[sym_str] = P[row, col]": [("P_expr", "(P_expr ++ [(row, col)])")],
                          "update_expr[str(self.x_[row])] = ' + '.join(update_expr_terms)": [("update_expr", "(update_expr ++ [(row, update_expr_terms)])")],
                          "update_expr[str(self.x_[row])] = sympy.parsing.sympy_parser.parse_expr(update_expr[str(self.x_[row])], global_dict=Shape._sympy_globals)": [],
                          _SIMPLIFY_IF: [],
                          "logging.info('update_expr[' + str(self.x_[row]) + '] = ' + str(update_expr[str(self.x_[row])]))": []},
                raise_map={"nonlinear part should be zero": "(Propagator.AsmErr.nonlinear row.val)",
                           "higher-order inhomogeneous ODEs are not supported": "(Propagator.AsmErr.higherOrderInhom row.val)",
                           "depends on the inhomogeneous ODE": "(Propagator.AsmErr.dependsOnInhom row.val col.val)"},
                error_type="Propagator.AsmErr", body_filter=_assembly_slice, end_return="(P_expr, update_expr)",
                result_type="List (Fin n × Fin n) × List (Fin n × List (Propagator.Term n K))",
                doc="the assembly loop. Entries of `A`, `b` are values of a type `K`; `_is_zero` tests are `= 0` (for `c` and `P`: the Boolean patterns "
                    "`cnz`, `Pnz`); the four string concatenations appended to `update_expr_terms` are the constructors of `Propagator.Term` (an edit "
                    "of any of these strings makes the translation fail); `P_expr` collects the (row, col) pairs whose propagator symbol is defined - the model names a "
                    "propagator by its pair, which is what the three naming statements (the format string, the loop that makes a name unique, the `P_name` table) "
                    "achieve since the F17 fix; "
                    "re-parsing and `_custom_simplify_expr` of the joined string are denotation-preserving contracts (dropped)")),
        ],
    },
    # ---------------------------------------------------------------------------------- C02
    "PyNumeric": {
        "imports": ["OdeVerif.Model.PyPrelude", "OdeVerif.Model.Shapes"],
        "file": "odetoolbox/system_of_shapes.py",
        "functions": [
            (("SystemOfShapes", "reconstitute_expr"), Spec(
                name="numericExpressions", header="{K : Type}",
                params=[("n", "Nat"), ("A", "Nat → Nat → K"), ("b", "Nat → K"), ("c", "Nat → K"), ("printsAsOne", "Nat → Nat → Bool")],
                types={"update_expr": "List (Nat × List (Shapes.NTerm K) × K × K)", "update_expr_terms": "List (Shapes.NTerm K)",
                       "row": "Nat", "col": "Nat", "x": "Nat", "y": "Nat", "for:enumerate(self.x_)": "(Nat × Nat)"},
                expr_map={"{}": "[]", "enumerate(self.x_)": "(Py.enumerateRange n)",
                          "str(self.A_[row, col]) in ['1', '1.', '1.0']": "(printsAsOne row col = true)",
                          "str(y)": "(Shapes.NTerm.var y)", "str(y) + ' * (' + str(self.A_[row, col]) + ')'": "(Shapes.NTerm.scaled y (A row col))"},
                stmt_map={"if state_variables is None:\n    state_variables = []": [],
                          "update_expr[str(x)] = ' + '.join(update_expr_terms) + ' + (' + str(self.b_[row]) + ') + (' + str(self.c_[row]) + ')'":
                              [("update_expr", "(update_expr ++ [(x, update_expr_terms, b row, c row)])")],
                          "update_expr[str(x)] = sympy.parsing.sympy_parser.parse_expr(update_expr[str(x)], global_dict=Shape._sympy_globals)": [],
                          "for name, expr in update_expr.items():\n    update_expr[name] = _custom_simplify_expr(expr)\n    collect_syms = [sym for sym in update_expr[name].free_symbols if not (sym in state_variables or str(sym) in state_variables)]\n    update_expr[name] = sympy.collect(update_expr[name], collect_syms)": []},
                result_type="List (Nat × List (Shapes.NTerm K) × K × K)",
                doc="state variables are positions of `x`; entries of `A`, `b`, `c` are values of a type `K`; `printsAsOne row col` is the string test "
                    "`str(A[row, col]) in [\"1\", \"1.\", \"1.0\"]` (contract: then the entry is 1); the two string forms of a summand are the constructors of "
                    "`Shapes.NTerm`; the joined string of a row is the triple (terms, b, c); re-parsing, `_custom_simplify_expr` and `sympy.collect` are "
                    "denotation-preserving contracts (dropped)")),
        ],
    },
    "PySplit": {
        "imports": ["OdeVerif.Model.PyPrelude", "OdeVerif.Model.Terms"],
        "file": "odetoolbox/shapes.py",
        "functions": [
            (("Shape", "split_lin_inhom_nonlin"), Spec(
                name="splitLinInhomNonlin", header="",
                params=[("params", "List Terms.Sym"), ("x", "List Terms.Sym"), ("terms", "List Terms.Term")],
                types={"lin_factors": "List (Nat × Terms.Term)", "inhom_term": "List Terms.Term", "nonlin_term": "List Terms.Term", "is_lin": "Bool",
                       "term": "Terms.Term", "j": "Nat", "sym": "Terms.Sym", "for:terms": "Terms.Term", "for:enumerate(x)": "(Nat × Terms.Sym)"},
                expr_map={"enumerate(x)": "(Py.enumerate x)",
                          "is_constant_term(term, parameters=parameters)": "(Terms.isConstant params term = true)",
                          "is_constant_term(term / sym, parameters=parameters)": "(Terms.isConstant params (Terms.divSym term sym) = true)",
                          "not is_lin": "(is_lin = false)", "(lin_factors, inhom_term, nonlin_term)": "(lin_factors, inhom_term, nonlin_term)"},
                stmt_map={"assert all([_is_sympy_type(sym) for sym in x])": [],
                          "if parameters is None:\n    parameters = {}": [],
                          "lin_factors = sympy.zeros(len(x), 1)": [("lin_factors", "[]")],
                          "inhom_term = sympy.Float(0)": [("inhom_term", "[]")], "nonlin_term = sympy.Float(0)": [("nonlin_term", "[]")],
                          "expr = expr.expand()": [], "if expr.is_Add:\n    terms = expr.args\nelse:\n    terms = [expr]": [],
                          "inhom_term += term": [("inhom_term", "(inhom_term ++ [term])")],
                          "lin_factors[j] += term / sym": [("lin_factors", "(lin_factors ++ [(j, Terms.divSym term sym)])")],
                          "nonlin_term += term": [("nonlin_term", "(nonlin_term ++ [term])")]},
                drop_calls=["logging.debug"], result_type="(List (Nat × Terms.Term) × List Terms.Term × List Terms.Term)",
                doc="`terms` are the summands of `expr.expand()` (SymPy contract), each represented by the symbols it contains (`Terms.Term`); the three "
                    "accumulators are the lists of terms added to them (`lin_factors[j] += term / sym` is recorded as `(j, term / sym)`); "
                    "`is_constant_term` and the exponent bookkeeping of `term / sym` are `Terms.isConstant` / `Terms.divSym`")),
        ],
    },
    # ---------------------------------------------------------------------------------- C11
    "PySingularity": {
        "imports": ["OdeVerif.Model.PyPrelude", "OdeVerif.Model.Singularity"],
        "file": "odetoolbox/singularity_detection.py",
        "functions": [
            (("SingularityDetection", "_generate_singularity_conditions"), Spec(
                name="generateSingularityConditions", header="",
                params=[("solve", "Singularity.Ex → List Singularity.Cond"), ("A", "List Singularity.Ex")],
                types={"conditions": "List Singularity.Cond", "cond": "List Singularity.Cond", "denom": "Singularity.Ex", "expr": "Singularity.Ex",
                       "subexpr": "Singularity.Ex", "for:sympy.flatten(A)": "Singularity.Ex", "for:sympy.preorder_traversal(expr)": "Singularity.Ex"},
                expr_map={"sympy.flatten(A)": "A", "sympy.preorder_traversal(expr)": "(Singularity.preorder expr)",
                          "isinstance(subexpr, sympy.Pow) and subexpr.args[1] < 0": "(Singularity.isNegPow subexpr = true)",
                          "subexpr.args[0]": "(Singularity.powBase subexpr)",
                          "sympy.solve(denom, denom.free_symbols, dict=True)": "(solve denom)",
                          "cond not in conditions": "True"},
                result_type="List Singularity.Cond",
                doc="expression trees are `Singularity.Ex`; `sympy.solve(denom, denom.free_symbols, dict=True)` is the oracle `solve` (a list of "
                    "condition identifiers); `cond not in conditions` compares a *list* of dictionaries with the dictionaries collected so far and is "
                    "therefore always true")),
            (("SingularityDetection", "_flatten_conditions"), Spec(
                name="flattenConditions", header="", params=[("cond", "List Singularity.Cond")],
                types={"lst": "List Singularity.Cond", "i": "Nat", "for:range(len(cond))": "Nat"},
                expr_map={"range(len(cond))": "(List.range cond.length)"},
                index_map={"cond": "cond.getD {k} 0"}, result_type="List Singularity.Cond",
                doc="first occurrences, in order")),
            (("SingularityDetection", "_filter_valid_conditions"), Spec(
                name="filterValidConditions", header="", params=[("definedA", "Singularity.Cond → Bool"), ("cond", "List Singularity.Cond")],
                types={"filt_cond": "List Singularity.Cond", "i": "Nat", "for:range(len(cond))": "Nat"},
                expr_map={"range(len(cond))": "(List.range cond.length)",
                          "SingularityDetection._is_matrix_defined_under_substitution(A, cond[i])": "(definedA (cond.getD i 0) = true)"},
                index_map={"cond": "cond.getD {k} 0"}, result_type="List Singularity.Cond",
                doc="`_is_matrix_defined_under_substitution(A, c)` is the oracle `definedA c`")),
            (("SingularityDetection", "find_singularities"), Spec(
                name="findSingularities", header="",
                params=[("solve", "Singularity.Ex → List Singularity.Cond"), ("definedA", "Singularity.Cond → Bool"), ("P", "List Singularity.Ex")],
                types={"conditions": "List Singularity.Cond"}, try_passthrough=True,
                expr_map={"SingularityDetection._generate_singularity_conditions(P)": "(generateSingularityConditions solve P)",
                          "SingularityDetection._flatten_conditions(conditions)": "(flattenConditions conditions)",
                          "SingularityDetection._filter_valid_conditions(conditions, A)": "(filterValidConditions definedA conditions)"},
                result_type="List Singularity.Cond",
                doc="the three stages in order (an exception inside them is re-raised as SingularityDetectionException: outside the model)")),
        ],
    },
    # ---------------------------------------------------------------------------------- C03 / C14
    "PyPartition": {
        "imports": ["OdeVerif.Model.PyPrelude"],
        "file": "odetoolbox/__init__.py",
        "functions": [
            (("_analysis",), Spec(
                name="solverPartition", header="",
                params=[("n", "Nat"), ("node_is_analytically_solvable", "Nat → Bool"), ("disable_analytic_solver", "Bool"),
                        ("disable_stiffness_check", "Bool"), ("solver_type", "Option String")],
                types={"requests": "List (List Nat)", "analytic_syms": "List Nat", "numeric_syms": "List Nat", "names": "List String", "name": "String"},
                predeclare=[("requests", "[]"), ("names", "[]"), ("name", "\"\"")],
                expr_map={"node_is_analytically_solvable.items()": "(Py.items n node_is_analytically_solvable)",
                          "_node_is_analytically_solvable": "(_node_is_analytically_solvable = true)",
                          "analytic_syms": "(analytic_syms ≠ [])", "len(analytic_syms) < len(shape_sys.x_)": "(analytic_syms.length < n)",
                          "list(set(shape_sys.x_) - set(analytic_syms))": "((List.range n).filter (fun i => decide (¬ i ∈ analytic_syms)))",
                          "not disable_stiffness_check": "(disable_stiffness_check = false)", "not solver_type is None": "(solver_type.isSome = true)"},
                stmt_map={"solvers_json = []": [], "analytic_solver_json = None": [],
                          "sub_sys = shape_sys.get_sub_system(analytic_syms)": [("requests", "(requests ++ [analytic_syms])")],
                          "analytic_solver_json = sub_sys.generate_propagator_solver()": [],
                          "analytic_solver_json['solver'] = 'analytical'": [("names", "(names ++ [\"analytical\"])")],
                          "solvers_json.append(analytic_solver_json)": [],
                          "sub_sys = shape_sys.get_sub_system(numeric_syms)": [("requests", "(requests ++ [numeric_syms])")],
                          "solver_json = sub_sys.generate_numeric_solver(state_variables=shape_sys.x_)": [],
                          "solver_json['solver'] = 'numeric'": [("name", "\"numeric\"")],
                          "solver_type = tester.check_stiffness()": [],
                          "solver_json['solver'] += '-' + solver_type": [("name", "(name ++ \"-\" ++ solver_type.getD \"\")")],
                          "solvers_json.append(solver_json)": [("names", "(names ++ [name])")],
                          "if analytic_syms:\n    pass": []},
                skip_prefixes=["if not PYGSL_AVAILABLE:", "kwargs = {}", "if 'options' in indict.keys() and 'random_seed' in indict['options'].keys():",
                               "if 'parameters' in indict.keys():\n    kwargs", "if 'stimuli' in indict.keys():\n    kwargs",
                               "for key in ['sim_time', 'max_step_size', 'integration_accuracy_abs', 'integration_accuracy_rel']:",
                               "if not analytic_solver_json is None:\n    kwargs", "tester = StiffnessTester(sub_sys, shapes, **kwargs)"],
                drop_calls=["logging.info"], body_filter=_partition_slice, end_return="(requests, names)", result_type="(List (List Nat) × List String)",
                doc="which sub-systems `_analysis` asks `get_sub_system` for (in order) and the `solver` names of the dictionaries it appends. State "
                    "variables are positions of `x`; the verdict dictionary is a function on them; `list(set(x) - set(analytic_syms))` is listed in the "
                    "order of `x` (its order is irrelevant: `get_sub_system` re-selects by position); `tester.check_stiffness()` is the parameter "
                    "`solver_type`; the construction of the tester's keyword arguments is dropped (prefix-pinned)")),
        ],
    },
    # ---------------------------------------------------------------------------------- C08
    "PyParams": {
        "imports": ["OdeVerif.Model.PyPrelude", "OdeVerif.Model.SolverDict"],
        "file": "odetoolbox/__init__.py",
        "functions": [
            (("_analysis",), Spec(
                name="parameterFilter", header="",
                params=[("hasParameters", "Bool"), ("params", "List (String × String)"), ("solvers_json", "List SolverDict.SolverView")],
                types={"listed": "List (List String)", "symbol_appears_in_any_expr": "Bool", "solver_json": "SolverDict.SolverView",
                       "param_name": "String", "param_expr": "String", "sym": "String", "expr": "List String",
                       "for:solvers_json": "SolverDict.SolverView", "for:indict['parameters'].items()": "(String × String)",
                       "for:solver_json['update_expressions'].items()": "(String × List String)",
                       "for:solver_json['propagators'].items()": "(String × List String)",
                       "for:solver_json['initial_values'].items()": "(String × List String)"},
                predeclare=[("listed", "[]")],
                expr_map={"'parameters' in indict.keys()": "(hasParameters = true)", "indict['parameters'].items()": "params",
                          "'update_expressions' in solver_json.keys()": "(solver_json.hasUpdate = true)",
                          "'propagators' in solver_json.keys()": "(solver_json.hasProp = true)",
                          "'initial_values' in solver_json.keys()": "(solver_json.hasIv = true)",
                          "solver_json['update_expressions'].items()": "solver_json.update",
                          "solver_json['propagators'].items()": "solver_json.prop",
                          "solver_json['initial_values'].items()": "solver_json.iv",
                          "param_name in [str(sym) for sym in list(expr.atoms())]": "(param_name ∈ expr)",
                          "param_name in [str(sym) for sym in list(sympy.parsing.sympy_parser.parse_expr(expr, global_dict=Shape._sympy_globals).atoms())]": "(param_name ∈ expr)"},
                stmt_map={"solver_json['parameters'] = {}": [("listed", "(listed ++ [[]])")],
                          "solver_json['parameters'][param_name] = str(sympy.parsing.sympy_parser.parse_expr(param_expr, global_dict=Shape._sympy_globals).n())":
                              [("listed", "(SolverDict.appendLast listed param_name)")]},
                body_filter=_param_filter_slice, end_return="listed", result_type="List (List String)",
                doc="the parameter filter only. A solver dictionary is seen through `SolverDict.SolverView` (which keys are present; per entry the "
                    "names of the atoms of its expression, as `expr.atoms()` / the re-parsed initial value give them); the result is, per solver in "
                    "order, the names of the supplied parameters written into its `parameters` entry (their values are `parse_expr(...).n()`: contract)")),
        ],
    },
    # ---------------------------------------------------------------------------------- glue (C02 / C08 / C03)
    "PyPreserve": {
        "imports": ["OdeVerif.Model.PyPrelude", "OdeVerif.Model.Glue"],
        "file": "odetoolbox/__init__.py",
        "functions": [
            (("_get_all_first_order_variables",), Spec(
                name="getAllFirstOrderVariables", header="", params=[("parse", "Glue.Parse"), ("dyn__", "List Glue.Dyn")],
                types={"variable_names": "List String", "exprs": "List String", "dyn": "Glue.Dyn", "expr": "String", "name": "String", "order": "Nat",
                       "for:indict['dynamics']": "Glue.Dyn", "for:exprs": "String"},
                predeclare=[("exprs", "[]")],
                expr_map=dict(_DYN_EXPRS),
                stmt_map={"name, order, rhs = Shape._parse_defining_expression(expr)": [("name", "(parse expr).1"), ("order", "(parse expr).2.1")]},
                result_type="List String",
                doc="`indict['dynamics']` is a list of `Glue.Dyn` (which of the two keys an entry has, and their values); "
                    "`Shape._parse_defining_expression` is the parameter `parse` (it has succeeded on every expression before: `Shape.from_json`); "
                    "`exprs` starts as `[]` (Python: unbound -- an entry with neither key is rejected by `Shape.from_json` before)")),
            (("_find_variable_definition",), Spec(
                name="findVariableDefinition", header="", params=[("parse", "Glue.Parse"), ("dyn__", "List Glue.Dyn"), ("name", "String"), ("order", "Nat")],
                types={"exprs": "List String", "dyn": "Glue.Dyn", "expr": "String", "name_": "String", "order_": "Nat", "rhs": "String",
                       "for:indict['dynamics']": "Glue.Dyn", "for:exprs": "String", "return": "Option String"},
                predeclare=[("exprs", "[]")],
                expr_map=dict(_DYN_EXPRS),
                stmt_map={"name_, order_, rhs = Shape._parse_defining_expression(expr)":
                          [("name_", "(parse expr).1"), ("order_", "(parse expr).2.1"), ("rhs", "(parse expr).2.2")]},
                ret_option=True, result_type="Option String",
                doc="as above; the result is Optional[str]")),
            (("_analysis",), Spec(
                name="preserveBlock", header="",
                params=[("parse", "Glue.Parse"), ("repl", "String → String"), ("dyn__", "List Glue.Dyn"), ("preserve_expressions", "Glue.PArg"),
                        ("solvers_json", "List Glue.SolverP")],
                types={"plist": "List String", "out": "List (Nat × String × Option String)", "first_order_vars": "List String",
                       "preserve_expressions_var": "String", "solver_json": "Glue.SolverP", "sym": "String", "expr": "Unit", "var_def_str": "Option String",
                       "for:preserve_expressions": "String", "for:solvers_json": "Glue.SolverP",
                       "for:solver_json['update_expressions'].items()": "(String × Unit)"},
                predeclare=[("plist", "preserve_expressions.list"), ("out", "[]")],
                test_map={"preserve_expressions": "(preserve_expressions.truth = true)"},
                expr_map={"type(preserve_expressions) is bool": "(preserve_expressions.isBool = true)",
                          "isinstance(preserve_expressions, Iterable)": "(preserve_expressions.isIterable = true)",
                          "preserve_expressions": "plist",
                          "_get_all_first_order_variables(indict)": "(getAllFirstOrderVariables parse dyn__)",
                          "'update_expressions' in solver_json.keys()": "(solver_json.hasUpdate = true)",
                          "solver_json['update_expressions'].items()": "(solver_json.update.map (fun s => (s, ())))",
                          "preserve_expressions and sym in preserve_expressions": "(plist ≠ [] ∧ sym ∈ plist)",
                          "'analytic' in solver_json['solver']": "(solver_json.analytic = true)",
                          "_find_variable_definition(indict, sym, order=1)": "(findVariableDefinition parse dyn__ sym 1)",
                          "var_def_str is not None": "(var_def_str.isSome = true)"},
                stmt_map={"preserve_expressions = _get_all_first_order_variables(indict)": [("plist", "(getAllFirstOrderVariables parse dyn__)")],
                          "preserve_expressions = []": [("plist", "[]")],
                          "solver_json['update_expressions'][sym] = str(expr)": [("out", "(out ++ [(solver_json.id, sym, none)])")],
                          "solver_json['update_expressions'][sym] = var_def_str.replace(\"'\", Config().differential_order_symbol)":
                              [("out", "(Glue.setLast out (solver_json.id, sym, var_def_str.map repl))")]},
                skip_prefixes=["if 'propagators' in solver_json.keys():"],
                raise_map={"Requested to preserve expression of variable": "Glue.PErr.notFirstOrder",
                           "parameter should be either a boolean or a list of strings": "Glue.PErr.badArgument"},
                asserts="except", assert_error="Glue.PErr.assertFailed", error_type="Glue.PErr",
                body_filter=_preserve_slice, end_return="out", result_type="List (Nat × String × Option String)",
                doc="the `preserve_expressions` block only. The argument is a `Glue.PArg` (a bool, a list of names, or anything else); the names to preserve "
                    "are kept in the separate variable `plist` (Python re-uses `preserve_expressions`); a solver dictionary is seen through `Glue.SolverP`; "
                    "the result lists, per key of every `update_expressions` in order, `none` (the solver's own expression, converted with `str`) or "
                    "`some text` (the user's right-hand side with `'` replaced by the differential-order symbol: `repl`); the conversion of the "
                    "propagators to strings is skipped")),
        ],
    },
    "PyInitialValues": {
        "imports": ["OdeVerif.Model.PyPrelude", "OdeVerif.Model.Glue"],
        "file": None,
        "functions": [
            (("odetoolbox/shapes.py", "Shape", "get_initial_value"), Spec(
                name="shapeGetInitialValue", header="", params=[("iv", "List (Glue.Sym × String)"), ("sym", "Glue.Sym")],
                expr_map={"not sym in self.initial_values.keys()": "((iv.lookup sym).isNone = true)", "self.initial_values[sym]": "((iv.lookup sym).getD \"\")"},
                ret_option=True, result_type="Option String",
                doc="`self.initial_values` is an association list keyed by (name, order) pairs")),
            (("odetoolbox/shapes.py", "Shape", "get_state_variables"), Spec(
                name="shapeGetStateVariables", header="", params=[("symbol", "String"), ("order__", "Nat")],
                types={"all_symbols": "List Glue.Sym", "order": "Nat", "for:range(self.order)": "Nat"},
                expr_map={"range(self.order)": "(List.range order__)", "sympy.Symbol(str(self.symbol) + derivative_symbol * order)": "(symbol, order)"},
                result_type="List Glue.Sym",
                doc="the symbol `name + marker * k` is the pair (name, k)")),
            (("odetoolbox/system_of_shapes.py", "SystemOfShapes", "get_initial_value"), Spec(
                name="systemGetInitialValue", header="", params=[("shapes", "List Glue.ShapeIv"), ("sym", "Glue.Sym")],
                types={"shape": "Glue.ShapeIv", "for:self.shapes_": "Glue.ShapeIv", "return": "Option String"},
                expr_map={"self.shapes_": "shapes",
                          "str(shape.symbol) == str(sym).replace(Config().differential_order_symbol, '').replace(\"'\", '')": "(shape.symbol = sym.1)",
                          "shape.get_initial_value(sym.replace(Config().differential_order_symbol, \"'\"))": "(shapeGetInitialValue shape.iv sym)"},
                asserts="drop", end_return="none", result_type="Option (Option String)", ret="(some {e})",
                doc="stripping the markers / primes from the spelling of `sym` gives its name component; re-spelling with primes is the identity on "
                    "pairs; the final `assert False` (unknown symbol) is the result `none`")),
            (("odetoolbox/__init__.py", "_analysis"), Spec(
                name="initialValueCopy", header="", params=[("shapes", "List Glue.ShapeIv"), ("solvers_json", "List (List Glue.Sym)")],
                types={"out": "List (List (Glue.Sym × Option String))", "solver_json": "List Glue.Sym", "shape": "Glue.ShapeIv", "sym": "Glue.Sym",
                       "all_shape_symbols": "List Glue.Sym", "i": "Nat",
                       "for:solvers_json": "(List Glue.Sym)", "for:shapes": "Glue.ShapeIv", "for:all_shape_symbols": "Glue.Sym", "for:range(shape.order)": "Nat"},
                predeclare=[("out", "[]")],
                expr_map={"str(sympy.Symbol(str(shape.symbol) + Config().differential_order_symbol * i))": "(shape.symbol, i)",
                          "range(shape.order)": "(List.range shape.order)",
                          "solver_json['state_variables']": "solver_json"},
                stmt_map={"solver_json['initial_values'] = {}": [("out", "(out ++ [[]])")],
                          "solver_json['initial_values'][sym] = str(shape.get_initial_value(sym.replace(Config().differential_order_symbol, \"'\")))":
                              [("out", "(Glue.appendLastIv out (sym, shapeGetInitialValue shape.iv sym))")]},
                body_filter=_iv_copy_slice, end_return="out", result_type="List (List (Glue.Sym × Option String))",
                doc="the initial-value copy loop only; a solver dictionary is its `state_variables` list; state variables are (name, order) pairs; "
                    "the result is, per solver, the (key, value) pairs written, in order (`none` is Python's `str(None)`)")),
        ],
    },
    "PyGlue": {
        "imports": ["OdeVerif.Model.PyPrelude", "OdeVerif.Model.Glue"],
        "file": None,
        "functions": [
            (("odetoolbox/sympy_helpers.py", "_find_in_matrix"), Spec(
                name="findInMatrix", header="{β : Type} [DecidableEq β]", params=[("A", "Nat → Nat → β"), ("rows", "Nat"), ("cols", "Nat"), ("el", "β")],
                types={"num_rows": "Nat", "num_cols": "Nat", "i": "Nat", "j": "Nat", "for:range(num_rows)": "Nat", "for:range(num_cols)": "Nat",
                       "return": "Option (Nat × Nat)"},
                expr_map={"A.rows": "rows", "A.cols": "cols", "range(num_rows)": "(List.range num_rows)", "range(num_cols)": "(List.range num_cols)",
                          "A[i, j]": "(A i j)"},
                ret_option=True, result_type="Option (Nat × Nat)",
                doc="a matrix is a function of two indices with its numbers of rows and columns; `==` on entries is decidable equality")),
            (("odetoolbox/system_of_shapes.py", "SystemOfShapes", "get_lin_cc_symbols"), Spec(
                name="getLinCcSymbols", header="", params=[("shapes", "List Glue.ShapeLin")],
                types={"node_is_lin": "List (Glue.Sym × Bool)", "_node_is_lin": "Bool", "shape": "Glue.ShapeLin", "sym": "Glue.Sym",
                       "all_shape_symbols": "List Glue.Sym", "for:self.shapes_": "Glue.ShapeLin", "for:all_shape_symbols": "Glue.Sym"},
                predeclare=[("_node_is_lin", "false")],
                expr_map={"self.shapes_": "shapes", "shape.is_lin_const_coeff_in(symbols, parameters=parameters)": "(shape.lin = true)",
                          "shape.get_state_variables(derivative_symbol=Config().differential_order_symbol)": "((List.range shape.order).map (fun k => (shape.symbol, k)))",
                          "{}": "[]", "True": "true", "False": "false"},
                stmt_map={"symbols = list(self.x_)": [], "node_is_lin[sym] = _node_is_lin": [("node_is_lin", "(Glue.assoc node_is_lin sym _node_is_lin)")]},
                result_type="List (Glue.Sym × Bool)",
                doc="a shape is seen through `Glue.ShapeLin` (its symbol, order and the verdict of `is_lin_const_coeff_in`: SymPy contract); the dictionary "
                    "is an association list with Python's assignment semantics (`Glue.assoc`); `get_state_variables` is the list of (name, k), k < order "
                    "(its own translation: Generated/PyInitialValues.lean, `shapeGetStateVariables`)")),
            (("odetoolbox/system_of_shapes.py", "SystemOfShapes", "shape_order_from_system_matrix"), Spec(
                name="shapeOrderFromSystemMatrix", header="", params=[("anz", "Nat → Nat → Bool"), ("n", "Nat"), ("sccLabels", "(Nat → Nat → Bool) → Nat → Nat"), ("idx", "Nat")],
                types={"N": "Nat", "A": "Nat → Nat → Bool", "i": "Nat", "j": "Nat", "scc": "Nat → Nat", "shape_order": "Nat",
                       "for:range(A.shape[0])": "Nat", "for:range(A.shape[1])": "Nat"},
                expr_map={"range(A.shape[0])": "(List.range N)", "range(A.shape[1])": "(List.range N)",
                          "sum(scc == scc[idx])": "(Glue.sameLabelCount scc N idx)"},
                stmt_map=dict(_SCC_FILL, **{"A[i, j] = not _is_zero(self.A_[i, j])": [("A", "(Py.update2 A i j (anz i j))")]}),
                result_type="Nat",
                doc="`self.A_` is seen through its non-zero pattern `anz` (`not _is_zero(.)`: SymPy contract) and its size `n`; the integer matrix handed to "
                    "SciPy is a Boolean function of two indices; `connected_components(A, connection='strong')[1]` is the parameter `sccLabels` (SciPy "
                    "contract; the statement is pinned verbatim); `sum(scc == scc[idx])` is `Glue.sameLabelCount`")),
            (("odetoolbox/system_of_shapes.py", "SystemOfShapes", "get_connected_symbols"), Spec(
                name="getConnectedSymbols", header="", params=[("anz", "Nat → Nat → Bool"), ("n", "Nat"), ("sccLabels", "(Nat → Nat → Bool) → Nat → Nat"), ("idx", "Nat")],
                types={"N": "Nat", "A": "Nat → Nat → Bool", "i": "Nat", "j": "Nat", "scc": "Nat → Nat", "idx": "Nat", "idxs": "List Nat",
                       "for:range(A.shape[0])": "Nat", "for:range(A.shape[1])": "Nat"},
                expr_map={"range(A.shape[0])": "(List.range N)", "range(A.shape[1])": "(List.range N)",
                          "[self.x_[i] for i in idx]": "idxs"},
                stmt_map=dict(_SCC_FILL, **{"A[i, j] = not _is_zero(self.A_[i, j])": [("A", "(Py.update2 A i j (anz i j))")],
                                            "idx = np.where(scc == scc[idx])[0]": [("idxs", "(Glue.sameLabel scc N idx)")]}),
                result_type="List Nat",
                doc="as above; state variables are identified with their positions in `x_`; `np.where(scc == scc[idx])[0]` is `Glue.sameLabel`")),
        ],
    },
    # ---------------------------------------------------------------------------------- integrator glue (C13 / C10 / C14 / C12)
    "PyStep": {
        "imports": ["OdeVerif.Model.PyPrelude", "OdeVerif.Model.Glue"],
        "file": None,
        "functions": [
            (("odetoolbox/mixed_integrator.py", "MixedIntegrator", "step"), Spec(
                name="mixedStep", header="{α : Type} [Inhabited α]",
                params=[("locals_", "List (String × α)"), ("xs", "List String"), ("allSyms", "List String"), ("hasAnalytic", "Bool"),
                        ("ana", "α → List (String × α)"), ("f", "String → List α → α"), ("t", "α"), ("y", "List α")],
                types={"_ret": "List α"},
                expr_map={"not self.analytic_integrator is None": "(hasAnalytic = true)",
                          "[self._update_expr_wrapped[str(sym)](*y) for sym in self._system_of_shapes.x_]": "(xs.map (fun sym => f sym y))"},
                stmt_map=dict(_STEP_LOCALS), try_passthrough=True, ret="(locals_, {e})", result_type="List (String × α) × List α",
                doc="`self._locals` is an association list with Python's dict.update semantics (`Glue.updateAll`) and is part of the result (the method mutates it); "
                    "`xs` are the names of `_system_of_shapes.x_`, `allSyms` those of `all_variable_symbols`; `analytic_integrator.get_value` is the parameter `ana` "
                    "(C12 is about it); the compiled update expressions are `f name args`; a missing key reads as `default` (Python: KeyError)")),
            (("odetoolbox/mixed_integrator.py", "MixedIntegrator", "numerical_jacobian"), Spec(
                name="numericalJacobian", header="{α : Type} [Inhabited α]",
                params=[("locals_", "List (String × α)"), ("xs", "List String"), ("allSyms", "List String"), ("hasAnalytic", "Bool"),
                        ("ana", "α → List (String × α)"), ("J", "Nat → Nat → List α → α"), ("t", "α"), ("y", "List α")],
                types={"dimension": "Nat", "dfdy": "Nat → Nat → α", "row": "Nat", "col": "Nat", "for:range(0, dimension)": "Nat"},
                expr_map={"not self.analytic_integrator is None": "(hasAnalytic = true)", "len(y)": "y.length",
                          "np.zeros((dimension, dimension), float)": "(fun _ _ => default)", "range(0, dimension)": "(List.range dimension)",
                          "self.symbolic_jacobian_wrapped[row, col](*y)": "(J row col y)", "(dfdy, dfdt)": "dfdy"},
                index_set={"dfdy": ("dfdy", "(Py.update2 {old} {k}.1 {k}.2 {v})")},
                stmt_map=dict(_STEP_LOCALS, **{"dfdt = np.zeros((dimension,))": []}), ret="(locals_, {e})", result_type="List (String × α) × (Nat → Nat → α)",
                doc="as `step`; the compiled Jacobian entries are `J row col args`; the matrix is a function of two indices (initially `default` = 0.0); `dfdt` (all zero) is dropped")),
        ],
    },
    "PyUpdateStep": {
        "imports": ["OdeVerif.Model.PyPrelude", "OdeVerif.Model.Glue"],
        "file": None,
        "functions": [
            (("odetoolbox/analytic_integrator.py", "AnalyticIntegrator", "_update_step"), Spec(
                name="updateStep", header="{α : Type} [Inhabited α]",
                params=[("allSyms", "List String"), ("updKeys", "List String"), ("f", "String → List α → α"), ("delta_t", "α"), ("initial_values", "List (String × α)")],
                types={"new_state": "List (String × α)", "y": "List α", "state_variable": "String", "expr": "Unit", "sym": "String",
                       "for:self.update_expressions.items()": "(String × Unit)", "for:self.all_variable_symbols": "String"},
                expr_map={"{}": "[]", "self.update_expressions.items()": "(updKeys.map (fun k => (k, ())))", "self.all_variable_symbols": "allSyms", "str(sym)": "sym",
                          "self.update_expressions_wrapped[state_variable](*y)": "(f state_variable y)"},
                stmt_map={"y = [delta_t] + [initial_values[str(sym)] for sym in self.all_variable_symbols]":
                          [("y", "(delta_t :: allSyms.map (fun sym => Glue.get initial_values sym))")]},
                index_set={"new_state": ("new_state", "(Glue.assoc {old} {k} {v})")},
                result_type="List (String × α)",
                doc="states are association lists (dictionary order matters to nobody but is kept); `allSyms` are the names of `all_variable_symbols`, `updKeys` the keys of "
                    "`update_expressions` in order; the compiled update expressions are `f name args`")),
        ],
    },
    "PyComponents": {
        "imports": ["OdeVerif.Model.PyPrelude", "OdeVerif.Model.Glue"],
        "file": None,
        "functions": [
            (("odetoolbox/system_of_shapes.py", "get_connected_component_indices"), Spec(
                name="connectedComponentIndices", header="",
                params=[("anz", "Nat → Nat → Bool"), ("n", "Nat"), ("ccLabels", "(Nat → Nat → Bool) → Nat → Nat")],
                types={"A_mirrored": "Nat → Nat → Bool", "graph_components": "Nat → Nat"},
                expr_map={"[np.where(graph_components == i)[0] for i in np.unique(graph_components)]": "(Glue.groupByLabel graph_components n)"},
                stmt_map={"A_mirrored = (A != 0) | (A.T != 0)": [("A_mirrored", "(fun i j => anz i j || anz j i)")],
                          "graph_components = scipy.sparse.csgraph.connected_components(A_mirrored)[1]": [("graph_components", "(ccLabels A_mirrored)")]},
                result_type="List (List Nat)",
                doc="every statement is NumPy / SciPy and pinned verbatim: `A != 0` is the pattern `anz`, `connected_components(.)[1]` the labelling `ccLabels` (SciPy contract), "
                    "the grouping by label `Glue.groupByLabel` (labels in increasing order, members in increasing order)")),
        ],
    },
    "PyShapesPass": {
        "imports": ["OdeVerif.Model.PyPrelude", "OdeVerif.Model.Glue"],
        "file": "odetoolbox/__init__.py",
        "functions": [
            (("_from_json_to_shapes",), Spec(
                name="fromJsonToShapes", header="{V : Type}",
                params=[("first", "Nat → Option (List (String × Option V)) → Glue.FirstPass"),
                        ("perm", "List String → List String"), ("timeSymbol", "String"), ("dynamics", "List Nat"), ("parameters", "Option (List (String × Option V))")],
                types={"shapes": "List (Nat × List String × Option (List (String × Option V)))", "all_variable_symbols": "List String", "all_parameter_symbols": "List String", "all_variable_symbols_": "List String",
                       "shape_json": "Nat", "shape": "Glue.FirstPass", "shape2": "Nat × List String × Option (List (String × Option V))", "param": "String",
                       "for:indict['dynamics']": "Nat", "for:all_parameter_symbols": "String"},
                expr_map={"indict['dynamics']": "dynamics", "all_parameter_symbols": "(perm all_parameter_symbols)",
                          "parameters is None": "(parameters.isNone = true)", "not param in parameters.keys()": "(¬ Glue.hasKey parameters param)",
                          "(shapes, parameters)": "(shapes, parameters)"},
                stmt_map={"all_parameter_symbols = set()": [("all_parameter_symbols", "[]")], "all_variable_symbols_ = set()": [("all_variable_symbols_", "[]")],
                          "shape = Shape.from_json(shape_json, parameters=parameters)": [("shape", "(first shape_json parameters)")],
                          "all_variable_symbols.extend(shape.get_state_variables())": [("all_variable_symbols", "(all_variable_symbols ++ shape.stateVars)")],
                          "all_variable_symbols_.update(shape.get_state_variables(derivative_symbol=Config().differential_order_symbol))":
                              [("all_variable_symbols_", "(Glue.setUnion all_variable_symbols_ shape.stateVarsMarker)")],
                          "all_parameter_symbols.update(set(shape.reconstitute_expr().free_symbols))":
                              [("all_parameter_symbols", "(Glue.setUnion all_parameter_symbols shape.free)")],
                          "all_parameter_symbols -= all_variable_symbols_": [("all_parameter_symbols", "(all_parameter_symbols.filter (fun p => decide (p ∉ all_variable_symbols_)))")],
                          "all_parameter_symbols.discard(sympy.Symbol(Config().input_time_symbol))":
                              [("all_parameter_symbols", "(all_parameter_symbols.filter (fun p => decide (p ≠ timeSymbol)))")],
                          "del all_variable_symbols_": [],
                          "parameters = dict()": [("parameters", "(some [])")],
                          "parameters[param] = None": [("parameters", "(Glue.setNone parameters param)")],
                          "shape = Shape.from_json(shape_json, all_variable_symbols=all_variable_symbols, parameters=parameters, _debug=True)":
                              [("shape2", "(shape_json, all_variable_symbols, parameters)")],
                          "shapes.append(shape)": [("shapes", "(shapes ++ [shape2])")]},
                body_filter=_shapes_pass_slice, result_type="List (Nat × List String × Option (List (String × Option V))) × Option (List (String × Option V))",
                doc="the two passes over `indict['dynamics']`. `Shape.from_json` is the pair of parameters `first` (first pass: what is read of the shape is a "
                    "`Glue.FirstPass` - its state variables in primed and in marker spelling and the free symbols of its reconstituted expression); the entries of "
                    "`indict['dynamics']` are their positions; a shape of the second pass is the triple of arguments `from_json` is called with; "
                    "Python sets are duplicate-free lists (`Glue.setUnion`, filters); the iteration order over the set of parameter symbols is the arbitrary "
                    "re-ordering `perm`; `parameters` is `None` or a dictionary (association list) whose values are `None` or given; "
                    "`sympy.Symbol(Config().input_time_symbol)` is the name `timeSymbol`")),
        ],
    },
    "PyIntegratorInit": {
        "imports": ["OdeVerif.Model.PyPrelude", "OdeVerif.Model.Glue"],
        "file": None,
        "functions": [
            (("odetoolbox/mixed_integrator.py", "MixedIntegrator", "__init__"), Spec(
                name="mixedInit", header="{α V : Type}",
                params=[("ev", "V → α"), ("respell", "String → String"), ("xs", "List String"), ("parameters", "Option (List (String × V))"),
                        ("analytic_solver_dict", "Option (Glue.AnaDict α)")],
                types={"P": "List (String × α)", "locals_": "List (String × α)", "asd": "Option (Glue.AnaDict α)", "allSyms": "List String", "Praw": "List (String × V)"},
                predeclare=[("Praw", "[]"), ("P", "[]"), ("locals_", "[]"), ("asd", "none"), ("allSyms", "[]")],
                expr_map={"parameters is None": "(parameters.isNone = true)", "not self.analytic_solver_dict is None": "(asd.isSome = true)",
                          "not 'parameters' in self.analytic_solver_dict.keys()": "(Glue.AnaDict.lacksParams asd = true)"},
                stmt_map={"self._parameters = {}": [("Praw", "[]")], "self._parameters = parameters": [("Praw", "(parameters.getD [])")],
                          "self._parameters = {k: sympy.parsing.sympy_parser.parse_expr(v, global_dict=Shape._sympy_globals).n() if not _is_sympy_type(v) else v for k, v in self._parameters.items()}":
                              [("P", "(Praw.map (fun kv => (kv.1, ev kv.2)))")],
                          "self._locals = self._parameters.copy()": [("locals_", "P")],
                          "self.analytic_solver_dict = analytic_solver_dict": [("asd", "analytic_solver_dict")],
                          "self.analytic_solver_dict['parameters'] = {}": [("asd", "(Glue.AnaDict.setParams asd [])")],
                          "self.analytic_solver_dict['parameters'].update(self._parameters)": [("asd", "(Glue.AnaDict.setParams asd (Glue.updateAll (Glue.AnaDict.paramsOf asd) P))")],
                          "self.all_variable_symbols = list(self._system_of_shapes.x_)": [("allSyms", "xs")],
                          "self.all_variable_symbols += self.analytic_solver_dict['state_variables']": [("allSyms", "(allSyms ++ Glue.AnaDict.stateVarsOf asd)")],
                          "self.all_variable_symbols = [sympy.Symbol(str(sym).replace(\"'\", Config().differential_order_symbol)) for sym in self.all_variable_symbols]":
                              [("allSyms", "(allSyms.map respell)")]},
                body_filter=_mixed_init_slice, end_return="(P, locals_, asd, allSyms)", result_type="List (String × α) × List (String × α) × Option (Glue.AnaDict α) × List String",
                doc="the handling of `parameters`, of the `parameters` entry of the analytic solver dictionary (which the constructor mutates) and of `all_variable_symbols` "
                    "only. Parameter values are evaluated by `ev` (`parse_expr(v).n()`, or `v` itself when it already is a SymPy object: contract); what is read of the analytic "
                    "solver dictionary is a `Glue.AnaDict` (is there a `parameters` entry, its content, the `state_variables`); re-spelling `'` as the marker is `respell`")),
            (("odetoolbox/analytic_integrator.py", "AnalyticIntegrator", "set_initial_values"), Spec(
                name="setInitialValues", header="{α V : Type}",
                params=[("ev", "V → List (String × α) → Option α"), ("hasParameters", "Bool"), ("params", "List (String × α)"), ("initial_values", "List (String × α)"),
                        ("vals", "List (String × V)")],
                types={"k": "String", "v": "V", "expr": "V", "subs_dict": "List (String × α)", "param_symbol": "String", "param_val": "α",
                       "for:vals.items()": "(String × V)", "for:self.solver_dict['parameters'].items()": "(String × α)"},
                expr_map={"vals.items()": "vals", "self.solver_dict['parameters'].items()": "params", "'parameters' in self.solver_dict.keys()": "(hasParameters = true)",
                          "k in self.initial_values.keys()": "((initial_values.lookup k).isSome = true)", "{}": "[]"},
                index_set={"subs_dict": ("subs_dict", "(Glue.assoc {old} {k} {v})")},
                stmt_map={"k = str(k)": [], "expr = sympy.parsing.sympy_parser.parse_expr(str(v), global_dict=Shape._sympy_globals)": [("expr", "v")],
                          "self.reset()": []},
                bind_map={"self.initial_values[k] = float(expr.evalf(subs=subs_dict))": ("initial_values", "(Glue.evalInto initial_values k (ev expr subs_dict))")},
                skip_prefixes=["msg = "], try_handlers=True,
                raise_map={"Exception(msg)": "Glue.IvErr.notNumeric"}, asserts="except", assert_error="Glue.IvErr.unknownKey", error_type="Glue.IvErr",
                end_return="initial_values", result_type="List (String × α)",
                doc="`self.initial_values` is an association list; `float(expr.evalf(subs=...))` is the parameter `ev` (`none` = TypeError, symbols left over); the "
                    "result is the new `initial_values` (`self.reset()` then copies it into the state: `Glue.resetState`), or which of the two errors")),
        ],
    },
    # ---------------------------------------------------------------------------------- small SymPy-facing helpers: what they ask of SymPy, and nothing else
    "PyContracts": {
        "imports": ["OdeVerif.Model.PyPrelude"],
        "file": None,
        "functions": [
            (("odetoolbox/sympy_helpers.py", "_is_zero"), Spec(
                name="isZero", header="{E : Type}", params=[("oz", "E → Bool"), ("x", "E")],
                expr_map={"bool(sympy.expand_mul(x).is_zero)": "(oz x)"},
                result_type="Bool",
                doc="the whole test is the SymPy answer `expand_mul(x).is_zero` (the parameter `oz`: contract 'true only for zero'); no tolerance, no other branch")),
            (("odetoolbox/shapes.py", "is_constant_term"), Spec(
                name="isConstantTerm", header="", params=[("isNumberAtom", "Bool"), ("free", "List String"), ("parameters", "Option (List String)")],
                types={"params_": "List String"},
                predeclare=[("params_", "(parameters.getD [])")],
                expr_map={"parameters is None": "(parameters.isNone = true)",
                          "type(term) in [sympy.Float, sympy.Integer, SympyZero, SympyOne] or all([sym in parameters.keys() for sym in term.free_symbols])":
                              "(decide (isNumberAtom = true ∨ ∀ sym ∈ free, sym ∈ params_))"},
                stmt_map={"parameters = {}": [("params_", "[]")]},
                asserts="drop", result_type="Bool",
                doc="what is read of the term: whether it is an atomic number (`type(term) in [Float, Integer, Zero, One]`) and the names of its free symbols; "
                    "`parameters` is `None` or the list of its keys")),
            (("odetoolbox/singularity_detection.py", "SingularityDetection", "_is_matrix_defined_under_substitution"), Spec(
                name="isMatrixDefinedUnderSubstitution", header="{E : Type}",
                params=[("undef", "E → E → E → Bool"), ("entries", "List E"), ("cond", "List (E × E)")],
                types={"val": "E", "expr": "E", "subs_expr": "E", "val_subs": "E × E × E", "for:sympy.flatten(A)": "E", "for:cond.items()": "(E × E)", "return": "Bool"},
                expr_map={"sympy.flatten(A)": "entries", "cond.items()": "cond", "sympy.simplify(val.subs(expr, subs_expr))": "(val, expr, subs_expr)",
                          "val_subs in [sympy.nan, sympy.zoo, sympy.oo] or val_subs.has(sympy.nan, sympy.zoo, sympy.oo, -sympy.oo)": "(undef val_subs.1 val_subs.2.1 val_subs.2.2 = true)",
                          "False": "false", "True": "true"},
                result_type="Bool",
                doc="EVERY entry of the matrix is substituted and simplified for EVERY pair of the condition; `undef val expr subs_expr` is the SymPy test "
                    "'the simplified substituted entry is or contains nan / zoo / oo' (contract)")),
        ],
    },
    "PyTesterArgs": {
        "imports": ["OdeVerif.Model.PyPrelude", "OdeVerif.Model.Glue"],
        "file": "odetoolbox/__init__.py",
        "functions": [
            (("_analysis",), Spec(
                name="testerKwargs", header="{α : Type}",
                params=[("hasOptions", "Bool"), ("optionsHaveSeed", "Bool"), ("seedVal", "Int"), ("hasParameters", "Bool"), ("hasStimuli", "Bool"),
                        ("cfgKeys", "List String"), ("cfg", "String → α"), ("hasAnalytic", "Bool")],
                types={"kwargs": "List (String × Glue.Kw α)", "random_seed": "Int", "key": "String",
                       "for:['sim_time', 'max_step_size', 'integration_accuracy_abs', 'integration_accuracy_rel']": "String"},
                expr_map={"{}": "[]", "'options' in indict.keys() and 'random_seed' in indict['options'].keys()": "(hasOptions = true ∧ optionsHaveSeed = true)",
                          "'parameters' in indict.keys()": "(hasParameters = true)", "'stimuli' in indict.keys()": "(hasStimuli = true)",
                          "key in Config().keys()": "(key ∈ cfgKeys)", "not analytic_solver_json is None": "(hasAnalytic = true)",
                          "random_seed": "(Glue.Kw.seed random_seed)", "indict['parameters']": "Glue.Kw.ref", "indict['stimuli']": "Glue.Kw.ref",
                          "analytic_solver_json": "Glue.Kw.ref", "float(Config()[key])": "(Glue.Kw.num (cfg key))",
                          "['sim_time', 'max_step_size', 'integration_accuracy_abs', 'integration_accuracy_rel']":
                              "[\"sim_time\", \"max_step_size\", \"integration_accuracy_abs\", \"integration_accuracy_rel\"]"},
                index_set={"kwargs": ("kwargs", "(Glue.assoc {old} {k} {v})")},
                stmt_map={"random_seed = int(indict['options']['random_seed'])": [("random_seed", "seedVal")]},
                asserts="drop", body_filter=_kwargs_slice, end_return="kwargs", result_type="List (String × Glue.Kw α)",
                doc="the keyword arguments `_analysis` constructs the StiffnessTester with (the constructor call itself is pinned: exactly `**kwargs`). "
                    "A value is a number read from the option store (`float(Config()[key])` = `cfg key`), the seed, or an object of the input passed through "
                    "(`Glue.Kw.ref`); `Config().keys()` is `cfgKeys`")),
        ],
    },
    "PyBenchmark": {
        "imports": ["OdeVerif.Model.PyPrelude", "OdeVerif.Model.Glue"],
        "file": "odetoolbox/stiffness.py",
        "functions": [
            (("StiffnessTester", "_evaluate_integrator"), Spec(
                name="evaluateIntegrator", header="", params=[("seed", "Int"), ("integrator", "String")],
                types={"trace": "List Glue.BenchEv"},
                predeclare=[("trace", "[]")],
                expr_map={"(h_min, h_avg, runtime)": "trace"},
                stmt_map={"np.random.seed(self.random_seed)": [("trace", "(trace ++ [Glue.BenchEv.seedNumpy seed])")],
                          "random.seed(self.random_seed)": [("trace", "(trace ++ [Glue.BenchEv.seedPython seed])")],
                          "spike_times = SpikeGenerator.spike_times_from_json(self._stimuli, self.sim_time)": [("trace", "(trace ++ [Glue.BenchEv.generateStimulus])")],
                          'mixed_integrator = MixedIntegrator(integrator, self.system_of_shapes, self.shapes, analytic_solver_dict=self.analytic_solver_dict, parameters=self.parameters, spike_times=spike_times, random_seed=self.random_seed, max_step_size=self.max_step_size, integration_accuracy_abs=self.integration_accuracy_abs, integration_accuracy_rel=self.integration_accuracy_rel, sim_time=self.sim_time, alias_spikes=self.alias_spikes)': [("trace", "(trace ++ [Glue.BenchEv.construct integrator])")],
                          "h_min, h_avg, runtime = (lambda x: x[:3])(mixed_integrator.integrate_ode(h_min_lower_bound=h_min_lower_bound, raise_errors=raise_errors, debug=debug))":
                              [("trace", "(trace ++ [Glue.BenchEv.integrate])")]},
                asserts="drop", result_type="List Glue.BenchEv",
                doc="every statement is a call and is pinned verbatim (incl. the complete argument list of the MixedIntegrator constructor: the tester's own system, "
                    "shapes, analytic solver dictionary, parameters, the spike times just generated, seed, step bound, accuracies, simulation time, aliasing mode); "
                    "the result is the trace of what happens, in order")),
        ],
    },
    "PyDictAssembly": {
        "imports": ["OdeVerif.Model.PyPrelude"],
        "file": "odetoolbox/system_of_shapes.py",
        "functions": [
            (("SystemOfShapes", "generate_numeric_solver"), Spec(
                name="generateNumericSolver", header="{β γ : Type}", params=[("x", "List String"), ("getIv", "String → β"), ("reconstitute", "γ")],
                types={"update_expr": "γ", "all_state_symbols": "List String", "initial_values": "List (String × β)", "solver_dict": "γ × List String × List (String × β)"},
                expr_map={"self.reconstitute_expr(state_variables=state_variables)": "reconstitute", "[str(sym) for sym in self.x_]": "x",
                          "{sym: str(self.get_initial_value(sym)) for sym in all_state_symbols}": "(all_state_symbols.map (fun sym => (sym, getIv sym)))",
                          "{'update_expressions': update_expr, 'state_variables': all_state_symbols, 'initial_values': initial_values}": "(update_expr, all_state_symbols, initial_values)"},
                result_type="γ × List String × List (String × β)",
                doc="the returned dictionary as the triple (update_expressions, state_variables, initial_values); `reconstitute_expr(...)` is the parameter "
                    "`reconstitute` (its own translation: Generated/PyNumeric.lean), `str(self.get_initial_value(sym))` is `getIv sym` (Generated/PyInitialValues.lean)")),
            (("SystemOfShapes", "generate_propagator_solver"), Spec(
                name="propagatorSolverDict", header="{β γ δ : Type}", params=[("x", "List String"), ("getIv", "String → β"), ("P_expr", "δ"), ("update_expr", "γ")],
                types={"all_state_symbols": "List String", "initial_values": "List (String × β)", "solver_dict": "δ × γ × List String × List (String × β)"},
                expr_map={"[str(sym) for sym in self.x_]": "x", "{sym: str(self.get_initial_value(sym)) for sym in all_state_symbols}": "(all_state_symbols.map (fun sym => (sym, getIv sym)))",
                          "{'propagators': P_expr, 'update_expressions': update_expr, 'state_variables': all_state_symbols, 'initial_values': initial_values}":
                              "(P_expr, update_expr, all_state_symbols, initial_values)"},
                body_filter=_solver_dict_tail, result_type="δ × γ × List String × List (String × β)",
                doc="the assembly of the returned dictionary only (the loop before it: Generated/PyPropagator.lean)")),
        ],
    },
    "PyAnalyticInit": {
        "imports": ["OdeVerif.Model.PyPrelude", "OdeVerif.Model.Glue"],
        "file": "odetoolbox/analytic_integrator.py",
        "functions": [
            (("AnalyticIntegrator", "__init__"), Spec(
                name="analyticInit", header="{α V U : Type}",
                params=[("ev", "V → List (String × α) → α"), ("parseU", "U → U"), ("subst", "U → List (String × Glue.SubV U α) → U"),
                        ("hasParameters", "Bool"), ("params", "List (String × α)"), ("ivs", "List (String × V)"), ("upd", "List (String × U)"), ("props", "List (String × U)")],
                types={"starting": "List (String × α)", "ue": "List (String × U)", "sd": "List (String × Glue.SubV U α)", "subs_dict": "List (String × α)",
                       "k": "String", "v": "V", "vu": "U", "expr": "V", "k_": "String", "v_": "α", "prop_symbol": "String", "prop_expr": "U", "param_symbol": "String", "param_expr": "α",
                       "for:self.shape_starting_values.items()": "(String × V)", "for:self.solver_dict['parameters'].items()": "(String × α)",
                       "for:self.update_expressions.items()": "(String × U)", "for:self.solver_dict['propagators'].items()": "(String × U)"},
                predeclare=[("starting", "[]"), ("ue", "[]"), ("sd", "[]")],
                rename={"v": "v"},
                expr_map={"self.shape_starting_values.items()": "ivs", "self.solver_dict['parameters'].items()": "params", "'parameters' in self.solver_dict.keys()": "(hasParameters = true)",
                          "self.update_expressions.items()": "ue", "self.solver_dict['propagators'].items()": "props", "{}": "[]",
                          "type(self.update_expressions[k]) is str": "True"},
                index_set={"subs_dict": ("subs_dict", "(Glue.assoc {old} {k} {v})")},
                stmt_map={"self.shape_starting_values = self.solver_dict['initial_values'].copy()": [],
                          "expr = sympy.parsing.sympy_parser.parse_expr(v, global_dict=Shape._sympy_globals)": [("expr", "v")],
                          "self.shape_starting_values[k] = float(expr.evalf(subs=subs_dict))": [("starting", "(Glue.assoc starting k (ev expr subs_dict))")],
                          "self.update_expressions = self.solver_dict['update_expressions'].copy()": [("ue", "upd")],
                          "self.update_expressions[k] = sympy.parsing.sympy_parser.parse_expr(self.update_expressions[k], global_dict=Shape._sympy_globals)":
                              [("ue", "(Glue.assoc ue k (parseU (Glue.getU ue k v)))")],
                          "self.subs_dict = {}": [("sd", "[]")],
                          "self.subs_dict[prop_symbol] = prop_expr": [("sd", "(Glue.assoc sd prop_symbol (Glue.SubV.expr prop_expr))")],
                          "self.subs_dict[param_symbol] = param_expr": [("sd", "(Glue.assoc sd param_symbol (Glue.SubV.val param_expr))")],
                          "self.update_expressions[k] = self.update_expressions[k].subs(self.subs_dict).subs(self.subs_dict)":
                              [("ue", "(Glue.assoc ue k (subst (subst (Glue.getU ue k v) sd) sd))")]},
                body_filter=_ai_init_slice, end_return="(starting, ue, sd)",
                result_type="List (String × α) × List (String × U) × List (String × Glue.SubV U α)",
                doc="the dictionary handling of the constructor. The two `.copy()` statements are pinned verbatim: the integrator works on copies "
                    "(`starting`, `ue`), the caller's dictionary (`ivs`, `upd`, `props`, `params`) is only read. `float(expr.evalf(subs=...))` is `ev`, "
                    "`parse_expr` of an update expression `parseU` (every expression is treated as a string: parsing a parsed expression is the identity - contract), "
                    "`.subs(d)` is `subst`; the result is (spike increments, update expressions after substitution, substitution dictionary)")),
        ],
    },
    # ---------------------------------------------------------------------------------- C14
    "PyStiffness": {
        "imports": ["OdeVerif.Model.PyPrelude", "OdeVerif.Generated.DrawDecision"],
        "file": "odetoolbox/stiffness.py",
        "functions": [
            (("StiffnessTester", "check_stiffness"), Spec(
                name="checkStiffness", header="{α : Type} [Mul α] [LT α] [DecidableLT α] [OfNat α 10] [OfNat α 6]",
                params=[("eps", "α"), ("bench", "Bool → Except Unit (α × α)")],
                types={"step_min_exp": "α", "step_average_exp": "α", "step_min_imp": "α", "step_average_imp": "α"},
                expr_map={"None": "none",
                          "self._draw_decision(step_min_imp, step_min_exp, step_average_imp, step_average_exp)":
                              "(some (drawDecision eps step_min_imp step_min_exp step_average_imp step_average_exp 10 6))"},
                bind_map={"step_min_exp, step_average_exp, runtime_exp = self._evaluate_integrator(odeiv.step_rk4, raise_errors=raise_errors)":
                          ("(step_min_exp, step_average_exp)", "bench false"),
                          "step_min_imp, step_average_imp, runtime_imp = self._evaluate_integrator(odeiv.step_bsimp, raise_errors=raise_errors)":
                          ("(step_min_imp, step_average_imp)", "bench true")},
                drop_calls=["logging.warning"], asserts="drop", try_handlers=True,
                raise_map={"__no_raise_in_this_function__": "()"}, error_type="Unit", result_type="Option String",
                doc="`self._evaluate_integrator(stepper, ...)` is the abstract benchmark `bench implicit?` (`false` = `odeiv.step_rk4`, `true` = "
                    "`odeiv.step_bsimp`) returning (minimum step, average step) or failing with ParametersIncompleteException; the default ratios 10 "
                    "and 6 of `_draw_decision` are passed explicitly (they are re-read from the source into `drawDecisionDefaults`)")),
        ],
    },
    "PyFromOde": {
        "imports": ["OdeVerif.Model.PyPrelude", "OdeVerif.Model.Shapes"],
        "file": "odetoolbox/shapes.py",
        "functions": [
            (("Shape", "from_ode"), Spec(
                name="fromOdeReattach", header="{K : Type} [Add K] [Mul K] [OfNat K 0]",
                params=[("derivative_factors", "List K"), ("x", "List K"), ("localIdx", "List Nat"), ("inhom_term", "K"), ("nonlin_term", "K")],
                types={"local_symbols_idx": "List Nat", "local_derivative_factors": "List K", "nonlocal_derivative_terms": "List K", "i": "Nat"},
                expr_map={"[all_variable_symbols.index(sym) for sym in local_symbols]": "localIdx",
                          "range(len(all_variable_symbols))": "(List.range x.length)",
                          "functools.reduce(lambda x, y: x + y, nonlocal_derivative_terms)": "(Shapes.sumList nonlocal_derivative_terms)",
                          "nonlocal_derivative_terms": "nonlocal_derivative_terms"},
                index_map={"derivative_factors": "derivative_factors.getD {k} 0", "all_variable_symbols_sympy": "x.getD {k} 0"},
                stmt_map={"if nonlocal_derivative_terms:\n    nonlin_term = nonlin_term + functools.reduce(lambda x, y: x + y, nonlocal_derivative_terms)":
                          [("nonlin_term", "(if nonlocal_derivative_terms ≠ [] then nonlin_term + (Shapes.sumList nonlocal_derivative_terms) else nonlin_term)")]},
                body_filter=_from_ode_slice, end_return="(local_derivative_factors, inhom_term, nonlin_term)", result_type="(List K × K × K)",
                doc="what `from_ode` does with the result of the split: keep the factors of the shape's own symbols (positions `localIdx` = "
                    "`[all_variable_symbols.index(sym) for sym in local_symbols]`), re-attach `factor * symbol` of every other position to the nonlinear "
                    "part. Values in a structure `K`; `functools.reduce(+)` of a non-empty list is `Shapes.sumList` (0 + the sum)")),
        ],
    },
    "PyFromShapes": {
        "imports": ["OdeVerif.Model.PyPrelude", "OdeVerif.Model.Shapes"],
        "file": "odetoolbox/system_of_shapes.py",
        "functions": [
            (("SystemOfShapes", "from_shapes"), Spec(
                name="fromShapesRows", header="{K : Type} [OfNat K 0] [OfNat K 1] [Inhabited K]",
                params=[("shapes", "List (Shapes.ShapeRow K)")],
                types={"A": "Nat → Nat → K", "b": "Nat → K", "c": "Nat → K", "i": "Nat", "highest_diff_sym_idx": "Nat", "order": "Nat",
                       "shape": "Shapes.ShapeRow K", "for:shapes": "Shapes.ShapeRow K", "for:range(shape.order - 1)": "Nat"},
                expr_map={"sympy.zeros(N, N)": "(fun _ _ => 0)", "sympy.zeros(N, 1)": "(fun _ => 0)", "range(shape.order - 1)": "(List.range (shape.order - 1))",
                          "shape.order": "shape.order"},
                literals={"1.0": "1"},
                index_set={"A": ("A", "(Py.update2 {old} {k}.1 {k}.2 {v})"), "b": ("b", "(Py.update {old} {k} {v})"), "c": ("c", "(Py.update {old} {k} {v})")},
                stmt_map={_HIGHEST: [("highest_diff_sym_idx", "(i + shape.order - 1)")],
                          "shape_expr = shape.reconstitute_expr()": [],
                          "lin_factors, inhom_term, nonlin_term = Shape.split_lin_inhom_nonlin(shape_expr, x, parameters=parameters)": [],
                          "A[highest_diff_sym_idx, :] = lin_factors.T": [("A", "(Py.setRow A highest_diff_sym_idx shape.lin)")],
                          "b[highest_diff_sym_idx] = inhom_term": [("b", "(Py.update b highest_diff_sym_idx shape.inhom)")],
                          "c[highest_diff_sym_idx] = nonlin_term": [("c", "(Py.update c highest_diff_sym_idx shape.nonlin)")]},
                body_filter=_from_shapes_slice, end_return="(A, b, c)", result_type="((Nat → Nat → K) × (Nat → K) × (Nat → K))",
                doc="the loop that fills `A`, `b`, `c`. A shape is seen as its order and the three results of splitting its reconstituted expression "
                    "against the global `x` (`Shapes.ShapeRow`); `x` lists the shapes' state variables shape by shape in derivative order (the first "
                    "loop of the function), so the position of a shape's highest derivative - found in the source by searching `x` for its name - is "
                    "`i + shape.order - 1` (names are distinct); matrices are functions of indices, initially zero")),
        ],
    },
    "PySubSystem": {
        "imports": ["OdeVerif.Model.PyPrelude", "OdeVerif.Model.Shapes"],
        "file": "odetoolbox/system_of_shapes.py",
        "functions": [
            (("SystemOfShapes", "get_sub_system"), Spec(
                name="subSystem", header="{K : Type} [Add K] [Mul K] [OfNat K 0]",
                params=[("n", "Nat"), ("keep", "Nat → Bool"), ("A", "Nat → Nat → K"), ("b", "Nat → K"), ("c", "Nat → K"), ("x", "Nat → K")],
                rename={"_idx": "row"},
                types={"idx": "List Nat", "idx_compl": "List Nat", "c_old": "Nat → K", "row": "Nat", "i": "Nat", "sym": "Nat",
                       "A_sub": "List (List K)", "b_sub": "List K", "c_sub": "List K", "for:idx": "Nat"},
                expr_map={"enumerate(self.x_)": "(Py.enumerateRange n)", "sym in symbols": "(keep sym = true)", "not sym in symbols": "(keep sym = false)",
                          "self.A_[idx, :][:, idx]": "(idx.map (fun r => idx.map (fun col => A r col)))", "self.b_[idx, :]": "(idx.map b)",
                          "self.c_.copy()": "c", "c_old[idx, :]": "(idx.map c_old)",
                          "self.A_[_idx, idx_compl].dot(self.x_[idx_compl, :])": "(Shapes.sumList (idx_compl.map (fun j => A row j * x j)))",
                          "(A_sub, b_sub, c_sub)": "(idx, A_sub, b_sub, c_sub)"},
                index_map={"c_old": "c_old {k}"},
                index_set={"c_old": ("c_old", "(Py.update {old} {k} {v})")},
                stmt_map={"x_sub = self.x_[idx, :]": [], "c_old[_idx] = _custom_simplify_expr(c_old[_idx])": [],
                          "shapes_sub = [shape for shape in self.shapes_ if shape.symbol in symbols]": [],
                          "return SystemOfShapes(x_sub, A_sub, b_sub, c_sub, shapes_sub)": []},
                end_return="(idx, A_sub, b_sub, c_sub)", result_type="(List Nat × List (List K) × List K × List K)",
                doc="state variables are positions of `x` (`sym in symbols` is `keep sym`); matrices and vectors are functions of indices with values in "
                    "`K`; NumPy/SymPy slicing `M[idx, :][:, idx]`, `v[idx, :]` and the row-times-column product are spelled out; "
                    "`_custom_simplify_expr` is a denotation-preserving contract (dropped)")),
        ],
    },
    # ---------------------------------------------------------------------------------- C10
    "PyJacobian": {
        "imports": ["OdeVerif.Model.PyPrelude", "OdeVerif.Model.Shapes"],
        "file": "odetoolbox/system_of_shapes.py",
        "functions": [
            (("SystemOfShapes", "get_jacobian_matrix"), Spec(
                name="jacobianMatrix", header="{K : Type} [Add K] [Mul K] [OfNat K 0]",
                params=[("diff", "K → Nat → K"), ("A", "List (List K)"), ("c", "List K"), ("x", "List K")],
                types={"J": "List ((Nat × Nat) × K)", "expr": "K", "N": "Nat", "i": "Nat", "j": "Nat", "sym": "Nat", "sym2": "Nat", "v": "K", "sym_v": "K",
                       "for:enumerate(self.x_)": "(Nat × Nat)", "for:zip(self.A_[i, :], self.x_)": "(K × K)"},
                expr_map={"len(self.x_)": "x.length", "sympy.zeros(N, N)": "[]", "enumerate(self.x_)": "(Py.enumerateRange x.length)",
                          "self.c_[i]": "(c.getD i 0)", "zip(self.A_[i, :], self.x_)": "(List.zip (A.getD i []) x)"},
                call_map={"sympy.diff": "diff"},
                index_set={"J": ("J", "({old} ++ [({k}, {v})])")},
                result_type="List ((Nat × Nat) × K)",
                doc="entries of `A`, `c` and the state variables are elements of an arbitrary structure `K` with + and * (symbolic expressions); "
                    "`sympy.diff(expr, x_j)` is `diff expr j`; `J` is the list of assignments `J[i, j] = ...` in the order they are made")),
        ],
    },
    # ---------------------------------------------------------------------------------- C05
    "PyFromFunction": {
        "imports": ["OdeVerif.Model.PyPrelude", "OdeVerif.Model.FromFunction"],
        "file": "odetoolbox/shapes.py",
        "functions": [
            (("Shape", "from_function"), Spec(
                name="fromFunction", header="", params=[("o", "FromFunction.Oracle"), ("max_t", "Nat"), ("max_order", "Nat")],
                types={"t_val": "Option Nat", "order": "Nat", "found_ode": "Bool", "invertible": "Bool", "t_": "Nat",
                       "for:range(0, max_t)": "Nat", "for:range(1, max_t)": "Nat"},
                expr_map={"None": "none", "range(0, max_t)": "(List.range max_t)", "range(1, max_t)": "(List.range' 1 (max_t - 1))",
                          "not _is_zero(definition.subs(Config().input_time_symbol, t_))": "(o.nonzeroAt t_ = true)",
                          "t_val is None": "(t_val.isNone = true)",
                          "not _is_zero(sympy.det(X))": "(o.invertibleAt order t_ = true)",
                          "_is_zero(sympy.simplify(diff_rhs_lhs))": "(o.verifies order = true)",
                          "not found_ode": "(found_ode = false)", "not invertible": "(invertible = false)",
                          "cls(sympy.Symbol(symbol), order, initial_values, derivative_factors)": "order"},
                stmt_map={_FF_DEFAULT_SYMS: [], "all_variable_symbols_dict = {str(el): el for el in all_variable_symbols}": [],
                          "definition = sympy.parsing.sympy_parser.parse_expr(definition, global_dict=Shape._sympy_globals, local_dict=all_variable_symbols_dict)": [],
                          "derivatives = [definition, sympy.diff(definition, Config().input_time_symbol)]": [],
                          "t_val = t_": [("t_val", "some t_")],
                          "msg = 'Cannot find t for which shape function is unequal to zero'": [],
                          "derivative_factors = [(1 / derivatives[0] * derivatives[1]).subs(Config().input_time_symbol, t_val)]": [],
                          "diff_rhs_lhs = derivatives[1] - derivative_factors[0] * derivatives[0]": [],
                          "found_ode = _is_zero(diff_rhs_lhs)": [("found_ode", "o.order1Verifies")],
                          "derivatives.append(sympy.diff(derivatives[-1], Config().input_time_symbol))": [],
                          "X = sympy.zeros(order)": [], "Y = sympy.zeros(order, 1)": [], _FF_FILL: [],
                          "derivative_factors = sympy.simplify(X.inv() * Y)": [], "diff_rhs_lhs = 0": [], _FF_RESID: [],
                          "diff_rhs_lhs += derivatives[order]": [],
                          "initial_values = {symbol + derivative_order * \"'\": x.subs(Config().input_time_symbol, 0) for derivative_order, x in enumerate(derivatives[:-1])}": []},
                drop_calls=["logging.info", "logging.debug"],
                raise_map={"raise Exception(msg)": "FromFunction.Err.noNonzeroSample",
                           "Shape does not satisfy any ODE of order <=": "FromFunction.Err.noOde"},
                error_type="FromFunction.Err", fuel_error="FromFunction.Err.noOde", result_type="Nat",
                doc="the control flow of the order search; every SymPy step is an oracle answer (`o.nonzeroAt t`, `o.order1Verifies`, "
                    "`o.invertibleAt order t`, `o.verifies order`), the statements that only compute SymPy objects are dropped verbatim (an edit of any of "
                    "them makes the translation fail); the value returned is the order of the shape that is constructed")),
        ],
    },
    # ---------------------------------------------------------------------------------- C01 / C06
    "PyScatter": {
        "imports": ["OdeVerif.Model.PyPrelude"],
        "file": "odetoolbox/system_of_shapes.py",
        "functions": [
            (("SystemOfShapes", "_generate_propagator_matrix"), Spec(
                name="scatterBlocks", header="{K : Type} [OfNat K 0]",
                params=[("components", "List (List Nat)"), ("E", "List Nat → Nat → Nat → K")],
                types={"P": "Nat → Nat → K", "idx": "List Nat", "i": "Nat", "j": "Nat", "i_block": "Nat", "j_block": "Nat",
                       "for:get_connected_component_indices(A_np)": "List Nat", "for:enumerate(idx)": "(Nat × Nat)"},
                expr_map={"sympy.zeros(*A.shape)": "(fun _ _ => 0)", "get_connected_component_indices(A_np)": "components",
                          "enumerate(idx)": "(Py.enumerate idx)", "P_block[i_block, j_block]": "(E idx i_block j_block)"},
                index_set={"P": ("P", "(Py.update2 {old} {k}.1 {k}.2 {v})")},
                stmt_map={"block = sympy.Matrix(A_np[np.ix_(idx, idx)])": [],
                          "P_block = sympy.simplify(sympy.exp(block * sympy.Symbol(Config().output_timestep_symbol)))": []},
                body_filter=_scatter_slice, end_return="P", result_type="Nat → Nat → K",
                doc="the scatter loop only. `get_connected_component_indices(A)` is the list `components` of index lists (SciPy contract, compared with "
                    "the model's own components on every case); `E idx a b` is entry (a, b) - block-local indices - of "
                    "`simplify(exp(A[idx, idx] * h))` (SymPy contract); `P` is a function of two indices, initially zero")),
        ],
    },
    # ---------------------------------------------------------------------------------- C13
    "PyMixed": {
        "imports": ["OdeVerif.Model.PyPrelude", "OdeVerif.Model.MixedIntegrator", "OdeVerif.Model.AnalyticIntegrator"],
        "file": "odetoolbox/mixed_integrator.py",
        "functions": [
            (("MixedIntegrator", "integrate_ode"), Spec(
                name="integrateOde", header=MIX,
                params=[("c", "MI.Cfg α"), ("inf", "α"), ("debug", "Bool"), ("hasAnalytic", "Bool"), ("y", "List α"), ("t_log", "List α"),
                        ("h_log", "List α"), ("y_closed", "List (List α)"), ("upper_bound_crossed", "Bool"), ("ai_log", "List (AI.Op α)")],
                types={"h_min": "α", "h_sum": "α", "n_timesteps_taken": "Nat", "t": "α", "idx_next_spike": "Nat", "t_target": "α",
                       "syms_next_spike": "List Nat", "t_next_spike": "α", "t_target_requested": "α", "h_requested": "α", "h_suggested": "α",
                       "y_prev": "List α", "r__": "(α × α × List α)", "idx": "Nat", "upper_bound_numeric": "α", "lower_bound_numeric": "α",
                       "for:self._shapes": "MI.ShapeB α", "for:syms_next_spike": "Nat", "shape": "MI.ShapeB α", "sym": "Nat"},
                predeclare=[("t_target", "0"), ("syms_next_spike", "[]"), ("t_next_spike", "0")],
                try_passthrough=True,
                expr_map={"self.sim_time": "c.simTime", "self.max_step_size": "c.maxStep", "self.alias_spikes": "c.aliasSpikes",
                          "len(all_spike_times)": "c.spikes.length", "np.inf": "inf", "self._shapes": "(MI.shapeBounds c)",
                          "not self.analytic_integrator is None": "(hasAnalytic = true)",
                          "not shape.upper_bound is None": "(shape.ub.isSome = true)", "not shape.lower_bound is None": "(shape.lb.isSome = true)",
                          "initial_values[shape.symbol]": "(MI.getY c.y0 shape.idx)",
                          "sym in [str(sym_) for sym_ in self._system_of_shapes.x_]": "(sym < y.length)",
                          "float(self._system_of_shapes.get_initial_value(sym).evalf(subs=self._locals))": "(MI.getY c.inc sym)"},
                call_map={"min": "MI.pyMin"},
                index_map={"all_spike_times": "MI.spikeTimeAt c {k}", "all_spike_times_sym": "MI.spikeSymsAt c {k}", "y": "MI.getY y {k}"},
                index_set={"y": ("y", "({old}.set {k} {v})")},
                stmt_map={"self.analytic_integrator.disable_cache_update()": [("ai_log", "(ai_log ++ [AI.Op.disableUpdate])")],
                          "self.analytic_integrator.enable_cache_update()": [("ai_log", "(ai_log ++ [AI.Op.enableUpdate])")],
                          "self.analytic_integrator.get_value(t)": [("ai_log", "(ai_log ++ [AI.Op.get t])")],
                          "self._locals.update(self.analytic_integrator.get_value(t))": [("ai_log", "(ai_log ++ [AI.Op.get t])")],
                          "self._locals.update({str(sym): y[i] for i, sym in enumerate(self._system_of_shapes.x_)})": [],
                          "t, h_suggested, y = evolve.apply(t, t_target_requested, h_requested, y)":
                              [("r__", "c.apply t t_target_requested h_requested y"), ("y_prev", "y"), ("t", "r__.1"), ("h_suggested", "r__.2.1"), ("y", "r__.2.2")],
                          "y_log.append(y)": [("y_closed", "(y_closed ++ [y_prev])")],
                          _HMIN_WARN: [],
                          _IDX_OF_SHAPE: [("idx", "shape.idx")], _IDX_OF_SYM: [("idx", "sym")],
                          "upper_bound_numeric = float(shape.upper_bound.evalf(subs=self._locals))": [("upper_bound_numeric", "MI.optVal shape.ub")],
                          "lower_bound_numeric = float(shape.lower_bound.evalf(subs=self._locals))": [("lower_bound_numeric", "MI.optVal shape.lb")]},
                body_filter=_main_loop,
                end_return="(t, y, idx_next_spike, t_log, y_closed, h_log, upper_bound_crossed, h_min, h_sum, n_timesteps_taken, ai_log)",
                result_type="(α × List α × Nat × List α × List (List α) × List α × Bool × α × α × Nat × List (AI.Op α))",
                doc="the main loop (`h_min = np.inf` ... end of `while t < self.sim_time`). `evolve.apply` is `c.apply`; spike symbols are positions of `y` "
                    "(symbols that are not integrated numerically never enter); `self._shapes` is `MI.shapeBounds c`; the calls on the analytic "
                    "integrator are recorded as the op list `ai_log`; NumPy aliasing of the logged array: `y_log` is `y_closed ++ [y]` - the entry "
                    "appended after a step is the array that the bound resets and spike increments then modify in place, so an entry is closed "
                    "when `evolve.apply` rebinds `y`")),
        ],
    },
    # ---------------------------------------------------------------------------------- C03 / C04
    "PyGraph": {
        "imports": ["OdeVerif.Model.PyPrelude", "OdeVerif.Model.Graph"],
        "file": "odetoolbox/system_of_shapes.py",
        "functions": [
            (("SystemOfShapes", "get_dependency_edges"), Spec(
                name="dependencyEdges", header="", params=[("s", "Graph.Sys")],
                types={"E": "List (Nat × Nat)", "for:enumerate(self.x_)": "(Nat × Nat)", "i": "Nat", "j": "Nat", "sym1": "Nat", "sym2": "Nat"},
                expr_map={"enumerate(self.x_)": "(Py.enumerateRange s.n)",
                          "not _is_zero(self.A_[j, i])": "(s.anz j i = true)",
                          "sym1 in self.c_[j].free_symbols": "(s.cdep j sym1 = true)"},
                result_type="List (Nat × Nat)",
                doc="state variables are their indices (`enumerate(self.x_)` yields `(i, i)`); `not _is_zero(A[j,i])` is `s.anz j i`, "
                    "`x_i in c[j].free_symbols` is `s.cdep j i`")),
            (("SystemOfShapes", "propagate_lin_cc_judgements"), Spec(
                name="propagate", header="", params=[("n", "Nat"), ("node_is_lin", "Nat → Bool"), ("E", "List (Nat × Nat)")],
                rename={"n": "m"},
                types={"queue": "List Nat", "m": "Nat", "dependent_neighbours": "List Nat", "for:dependent_neighbours": "Nat"},
                expr_map={"node_is_lin.items()": "(Py.items n node_is_lin)", "len(queue) > 0": "(queue.length > 0)",
                          "not is_lin_cc": "(is_lin_cc = false)"},
                index_map={"node_is_lin": "node_is_lin {k} = true"},
                index_set={"node_is_lin": ("node_is_lin", "(Py.update {old} {k} {v})")},
                result_type="Nat → Bool",
                doc="`node_is_lin` (a dict over the state variables) is a function on indices `0 … n-1`; its `.items()` are listed in index order")),
        ],
    },
    "PyDemote": {
        "imports": ["OdeVerif.Model.PyPrelude", "OdeVerif.Model.Graph"],
        "file": "odetoolbox/__init__.py",
        "functions": [
            (("_find_analytically_solvable_equations",), Spec(
                name="demote", header="", params=[("s", "Graph.Sys"), ("node_is_analytically_solvable", "Nat → Bool")],
                types={"for:range(len(shape_sys.x_))": "Nat", "i": "Nat", "j": "Nat"},
                expr_map={"range(len(shape_sys.x_))": "(List.range s.n)",
                          "not _is_zero(shape_sys.b_[i])": "(s.bnz i = true)",
                          "shape_sys.shape_order_from_system_matrix(i)": "(Graph.sccSize s i)",
                          "shape_sys.x_[i] in shape_sys.get_connected_symbols(i)": "True",
                          "not i == j": "(¬ i = j)",
                          "not _is_zero(shape_sys.A_[i, j])": "(s.anz i j = true)",
                          "not _is_zero(shape_sys.b_[_find_in_matrix(shape_sys.x_, shape_sys.x_[j])])": "(s.bnz j = true)",
                          "shape_sys.x_[i]": "i"},
                index_set={"node_is_analytically_solvable": ("node_is_analytically_solvable", "(Py.update {old} {k} {v})")},
                body_filter=_only_for, end_return="node_is_analytically_solvable", result_type="Nat → Bool",
                doc="the two demotion rules (the loop over i, j). State variables are positions of `x`; `shape_order_from_system_matrix(i)` is the size "
                    "of the strongly connected component (`Graph.sccSize`, SciPy contract); a variable is always among its own connected symbols; "
                    "`_find_in_matrix(x, x[j])` is `j` (the entries of `x` are distinct)")),
        ],
    },
    # ---------------------------------------------------------------------------------- C09
    "PyFromJson": {
        "imports": ["OdeVerif.Model.PyPrelude", "OdeVerif.Model.Validate"],
        "file": "odetoolbox/shapes.py",
        "functions": [
            (("Shape", "_parse_defining_expression"), Spec(
                name="parseDefiningExpression", header="", params=[("s", "Validate.Str")],
                types={"lhs": "Validate.Str", "lhs_": "List Validate.Str", "symbol_match": "Option Validate.Str", "symbol": "Validate.Str", "order": "Nat"},
                expr_map={"re.findall('\\\\S+', lhs)": "(Validate.tokens lhs)", "re.search('[a-zA-Z_][a-zA-Z0-9_]*', s)": "(Validate.firstIdent s)",
                          "symbol_match is None": "(symbol_match.isNone = true)", "symbol_match.group()": "(symbol_match.getD [])",
                          "len(re.findall(\"'\", lhs))": "(Validate.countChar '\\'' lhs)", "(symbol, order, rhs)": "(symbol, order)"},
                call_map={"len": "List.length"},
                index_map={"lhs_": "lhs_.headD []"},
                stmt_map={"lhs, rhs = s.split('=')": [("lhs", "(Validate.splitEq s).1")], "rhs = rhs.strip()": []},
                raise_map={"Error while parsing expression": "Validate.Kind.lhsTokens", "Error while parsing symbol name": "Validate.Kind.noSymbol"},
                error_type="Validate.Kind", result_type="Validate.Str × Nat",
                doc="strings are character lists; `s.split('=')` (exactly one '=', checked by the caller) is `Validate.splitEq`, `re.findall(r'\\S+', .)` is "
                    "`Validate.tokens`, `re.search(identifier, .)` is `Validate.firstIdent`, counting primes is `Validate.countChar`; `lhs_[0]` is the head; the "
                    "right-hand side is not part of the structural check and is dropped from the result")),
            (("Shape", "from_json"), Spec(
                name="fromJson", header="", params=[("e", "Validate.Entry")],
                types={"symbol": "Validate.Str", "order": "Nat", "initial_val_specified": "List Bool", "symbol_match": "Option Validate.Str",
                       "iv_symbol": "Validate.Str", "iv_order": "Nat", "iv_lhs": "Validate.Str", "iv_rhs": "Validate.Str",
                       "for:indict['initial_values'].items()": "(Validate.Str × Validate.Str)"},
                expr_map={"not 'expression' in indict": "(e.expression.isNone = true)",
                          "not indict['expression'].count('=') == 1": "(¬ Validate.countChar '=' (e.expression.getD []) = 1)",
                          "not 'initial_value' in indict.keys()": "(e.initialValue.isNone = true)",
                          "not 'initial_values' in indict.keys()": "(e.initialValues.isNone = true)",
                          "'initial_value' in indict.keys()": "(e.initialValue.isSome = true)",
                          "'initial_values' in indict.keys()": "(e.initialValues.isSome = true)",
                          "len(indict['initial_values'])": "(e.initialValues.getD []).length",
                          "[False] * order": "(List.replicate order false)", "indict['initial_values'].items()": "(e.initialValues.getD [])",
                          "re.search('[a-zA-Z_][a-zA-Z0-9_]*', iv_lhs)": "(Validate.firstIdent iv_lhs)", "symbol_match is None": "(symbol_match.isNone = true)",
                          "symbol_match.group()": "(symbol_match.getD [])", "len(re.findall(\"'\", iv_lhs))": "(Validate.countChar '\\'' iv_lhs)",
                          "not all(initial_val_specified)": "(initial_val_specified.all id = false)",
                          "Shape.from_function(symbol, rhs)": "(symbol, order)",
                          "Shape.from_ode(symbol, rhs, initial_values, all_variable_symbols=all_variable_symbols, lower_bound=lower_bound, upper_bound=upper_bound, parameters=parameters)": "(symbol, order)"},
                index_map={"initial_val_specified": "initial_val_specified.getD {k} false = true"},
                index_set={"initial_val_specified": ("initial_val_specified", "({old}.set {k} {v})")},
                bind_map={"symbol, order, rhs = Shape._parse_defining_expression(indict['expression'])":
                          ("(symbol, order)", "parseDefiningExpression (e.expression.getD [])")},
                stmt_map={"initial_values = {}": [], "initial_values[symbol] = indict['initial_value']": [],
                          "initial_values[iv_symbol + iv_order * \"'\"] = iv_rhs": [],
                          "lower_bound = None": [], "upper_bound = None": [],
                          "if 'lower_bound' in indict.keys():\n    lower_bound = indict['lower_bound']": [],
                          "if 'upper_bound' in indict.keys():\n    upper_bound = indict['upper_bound']": []},
                raise_map={"No `expression` keyword": "Validate.Kind.noExpression", "Expecting exactly one": "Validate.Kind.eqCount",
                           "No initial values specified": "Validate.Kind.noInitialValues",
                           "cannot be specified simultaneously": "Validate.Kind.bothSpellings",
                           "Single initial value specified": "Validate.Kind.singleNotFirstOrder",
                           "Wrong number of initial values": "Validate.Kind.wrongNumber",
                           "Error trying to parse initial value variable symbol": "Validate.Kind.ivNoSymbol",
                           "does not match equation variable symbol": "Validate.Kind.ivOtherVariable",
                           "exceeds that of overall equation order": "Validate.Kind.ivOrderTooHigh",
                           "specified more than once": "Validate.Kind.ivDuplicate",
                           "Initial value not specified for all differential orders": "Validate.Kind.ivMissing"},
                error_type="Validate.Kind", result_type="Validate.Str × Nat",
                doc="the structural checks of one `dynamics` entry, in source order; every `raise MalformedInputException` is the error kind named after "
                    "its message; `indict` is the record of the three keys the checks look at; the initial values themselves, the bounds and the "
                    "construction of the shape (`from_function` / `from_ode`) are outside: the result is (symbol, order)")),
        ],
    },
    # ---------------------------------------------------------------------------------- C07 / C09
    "PyConfig": {
        "imports": ["OdeVerif.Model.PyPrelude", "OdeVerif.Model.Config"],
        "file": "odetoolbox/__init__.py",
        "functions": [
            (("_read_global_config",), Spec(
                name="readGlobalConfig", header="", params=[("store", "Config.Store"), ("options", "Option (List (String × String))")],
                types={"for:indict['options'].items()": "(String × String)"},
                expr_map={"'options' in indict.keys()": "(options.isSome = true)", "indict['options'].items()": "(options.getD [])",
                          "key in Config.config.keys()": "(store.hasKey key = true)"},
                index_set={"Config.config": ("store", "(Config.Store.set {old} {k} {v})")},
                drop_calls=["logging.info"],
                asserts="except", assert_error="store", error_type="Config.Store", end_return="store",
                result_type="Config.Store",
                doc="`Config.config` is the threaded `store`; a failing `assert` (unknown option key) leaves with `.error store`: the keys "
                    "written before it stay written")),
            (("_analysis",), Spec(
                name="analysisPrologue", header="",
                params=[("store", "Config.Store"), ("hasDynamics", "Bool"), ("options", "Option (List (String × String))"), ("simplify", "Option String")],
                expr_map={"'dynamics' not in indict": "(hasDynamics = false)",
                          "([], SystemOfShapes.from_shapes([]), [])": "(store, Config.Prologue.empty)"},
                stmt_map={"Config.reset()": [("store", "Config.defaults")],
                          "if simplify_expression:\n    Config.config['simplify_expression'] = simplify_expression":
                              [("store", "(match simplify with | some e => Config.Store.set store \"simplify_expression\" e | none => store)")]},
                bind_map={"_read_global_config(indict)": ("store", "readGlobalConfig store options")},
                drop_calls=["logging.info", "_init_logging"],
                asserts="except", assert_error="store", error_type="Config.Store",
                body_filter=_prologue_slice, end_return="(store, Config.Prologue.proceed)", result_type="Config.Store × Config.Prologue",
                doc="the option handling at the start of `_analysis`, in source order: `Config.reset()`, the early return for an input without "
                    "`dynamics`, `_read_global_config` (an unknown key leaves with `.error store`), the `simplify_expression` argument (`None` or a "
                    "non-empty string: `simplify`)")),
        ],
    },
}
