"""Translation specs: which Python functions of /repo are re-translated to Lean on every run, and the
modelling decisions (types, renderings of attribute accesses and external calls) for each.

One generated file per group, so that a construct the translator does not support (or an ill-typed
result) breaks the tie of the affected properties only.
"""
import ast

from .py2lean import Spec

ORD = "{α : Type} [Add α] [Div α] [OfNat α 0] [OfNat α 1] [LT α] [LE α] [DecidableLT α] [DecidableLE α]"
ORD_P = "{α : Type} [Add α] [OfNat α 0] [LT α] [LE α] [DecidableLT α] [DecidableLE α]"
TSS = "{Tm St Sy : Type} [LT Tm] [LE Tm] [Sub Tm] [OfNat Tm 0] [DecidableLT Tm] [DecidableLE Tm]"
MRG = "{Tm Sy : Type} [DecidableEq Tm]"

_INC_STMT = "if spike_sym in self.initial_values.keys():\n    state_at_t_curr[spike_sym] += self.shape_starting_values[spike_sym]"


def _merge_slice(body):
    """set_spike_times: from `self.all_spike_times = []` up to and including the double loop"""
    out, on = [], False
    for s in body:
        if ast.unparse(s).startswith("self.all_spike_times = []"):
            on = True
        if on:
            out.append(s)
        if on and isinstance(s, ast.For):
            break
    return out


def _edges_keep(body):
    return body


GROUPS = {
    # ---------------------------------------------------------------------------------- C15
    "PySpikes": {
        "imports": ["OdeVerif.Model.PyPrelude"],
        "file": "odetoolbox/spike_generator.py",
        "functions": [
            (("SpikeGenerator", "_generate_regular_spikes"), Spec(
                name="regularSpikes", header=ORD, params=[("T", "α"), ("rate", "α")],
                types={"spike_times": "List α", "isi": "α", "t": "α"}, result_type="List α",
                doc="literal translation; the result is `none` when the loop needs more than `fuel` iterations")),
            (("SpikeGenerator", "_generate_homogeneous_poisson_spikes"), Spec(
                name="poissonSpikes", header=ORD_P, params=[("T", "α"), ("min_isi", "α"), ("isis", "List α")],
                types={"spike_times": "List α", "isi": "α", "t": "α"}, result_type="List α",
                pop_map={"isi = -math.log(1.0 - random.random()) / rate": ("isi", "isis")},
                call_map={"max": "Py.max"},
                doc="the exponential draw `-math.log(1. - random.random()) / rate` is read from the stream `isis` "
                    "(one element per loop iteration; `none` when the stream or the fuel runs out)")),
        ],
    },
    # ---------------------------------------------------------------------------------- C12
    "PyIntegrator": {
        "imports": ["OdeVerif.Model.PyPrelude", "OdeVerif.Model.AnalyticIntegrator"],
        "file": None,
        "functions": [
            (("odetoolbox/analytic_integrator.py", "AnalyticIntegrator", "get_value"), Spec(
                name="getValue", header=TSS,
                params=[("p", "AI.Params Tm St Sy"), ("c", "AI.Cache Tm St"), ("t", "Tm")],
                types={"t_curr": "Tm", "state_at_t_curr": "St", "delta_t": "Tm", "spike_t": "Tm", "spike_syms": "List Sy",
                       "for:zip(all_spike_times, all_spike_times_sym)": "(Tm × List Sy)", "for:spike_syms": "Sy"},
                expr_map={"self.enable_caching": "p.enableCaching", "self.t_curr": "c.tcurr", "self.state_at_t_curr": "c.state",
                          "self.enable_cache_update_": "c.cacheUpdate", "zip(all_spike_times, all_spike_times_sym)": "p.spikes"},
                call_map={"self._update_step": "p.step"},
                stmt_map={"self.reset()": [("c", "AI.reset p c")],
                          "all_spike_times, all_spike_times_sym = self.get_sorted_spike_times()": [],
                          _INC_STMT: [("state_at_t_curr", "p.inc spike_sym state_at_t_curr")]},
                attr_set={"self.t_curr": ("c", "{{ {old} with tcurr := {v} }}"),
                          "self.state_at_t_curr": ("c", "{{ {old} with state := {v} }}")},
                ret="(c, {e})", result_type="(AI.Cache Tm St × St)",
                doc="`self` is the pair (immutable parameters `p`, mutable cache `c`); the new cache is returned with the value. "
                    "`_update_step` is `p.step`, the guarded increment of one spike symbol is `p.inc`")),
            (("odetoolbox/integrator.py", "Integrator", "set_spike_times"), Spec(
                name="mergeSpikes", header=MRG, params=[("d", "List (Sy × List Tm)")],
                types={"times": "List Tm", "syms": "List (List Sy)", "idx": "Nat", "sym": "Sy", "t_sp": "Tm",
                       "for:self.spike_times.items()": "(Sy × List Tm)", "for:sym_spike_times": "Tm"},
                expr_map={"self.all_spike_times": "times", "self.all_spike_times_sym": "syms", "self.spike_times.items()": "d"},
                call_map={"self.all_spike_times.index": "Py.index times"},
                index_map={"self.all_spike_times_sym": "Py.getD syms {k}"},
                index_set={"self.all_spike_times_sym": ("syms", "(Py.set {old} {k} {v})")},
                attr_set={"self.all_spike_times": ("times", "{v}"), "self.all_spike_times_sym": ("syms", "{v}")},
                body_filter=_merge_slice, end_return="(times, syms)", result_type="(List Tm × List (List Sy))",
                doc="the merge loops only (`self.all_spike_times` = `times`, `self.all_spike_times_sym` = `syms`, the dict's items = `d`); "
                    "the final `np.argsort` re-ordering is a NumPy contract and stays in the hand model (`sortByTime`)")),
        ],
    },
    # ---------------------------------------------------------------------------------- C03 / C04
    "PyGraph": {
        "imports": ["OdeVerif.Model.PyPrelude", "OdeVerif.Model.Graph"],
        "file": "odetoolbox/system_of_shapes.py",
        "functions": [
            (("SystemOfShapes", "get_dependency_edges"), Spec(
                name="dependencyEdges", header="", params=[("s", "Graph.Sys")],
                types={"E": "List (Nat × Nat)", "for:enumerate(self.x_)": "(Nat × Nat)", "i": "Nat", "j": "Nat", "sym1": "Nat", "sym2": "Nat"},
                expr_map={"enumerate(self.x_)": "(Py.enumerateRange s.n)",
                          "not _is_zero(self.A_[j, i])": "(s.anz j i = true)",
                          "sym1 in self.c_[j].free_symbols": "(s.cdep j sym1 = true)"},
                result_type="List (Nat × Nat)",
                doc="state variables are their indices (`enumerate(self.x_)` yields `(i, i)`); `not _is_zero(A[j,i])` is `s.anz j i`, "
                    "`x_i in c[j].free_symbols` is `s.cdep j i`")),
            (("SystemOfShapes", "propagate_lin_cc_judgements"), Spec(
                name="propagate", header="", params=[("n", "Nat"), ("node_is_lin", "Nat → Bool"), ("E", "List (Nat × Nat)")],
                rename={"n": "m"},
                types={"queue": "List Nat", "m": "Nat", "dependent_neighbours": "List Nat", "for:dependent_neighbours": "Nat"},
                expr_map={"node_is_lin.items()": "(Py.items n node_is_lin)", "len(queue) > 0": "(queue.length > 0)",
                          "not is_lin_cc": "(is_lin_cc = false)"},
                index_map={"node_is_lin": "node_is_lin {k} = true"},
                index_set={"node_is_lin": ("node_is_lin", "(Py.update {old} {k} {v})")},
                result_type="Nat → Bool",
                doc="`node_is_lin` (a dict over the state variables) is a function on indices `0 … n-1`; its `.items()` are listed in index order")),
        ],
    },
    # ---------------------------------------------------------------------------------- C07 / C09
    "PyConfig": {
        "imports": ["OdeVerif.Model.PyPrelude", "OdeVerif.Model.Config"],
        "file": "odetoolbox/__init__.py",
        "functions": [
            (("_read_global_config",), Spec(
                name="readGlobalConfig", header="", params=[("store", "Config.Store"), ("options", "Option (List (String × String))")],
                types={"for:indict['options'].items()": "(String × String)"},
                expr_map={"'options' in indict.keys()": "(options.isSome = true)", "indict['options'].items()": "(options.getD [])",
                          "key in Config.config.keys()": "(store.hasKey key = true)"},
                index_set={"Config.config": ("store", "(Config.Store.set {old} {k} {v})")},
                stmt_map={"logging.info('Processing global options...')": []},
                asserts="error", assert_exit="(store, false)", end_return="(store, true)",
                result_type="(Config.Store × Bool)",
                doc="`Config.config` is the threaded `store`; a failing `assert` leaves with `(store, false)`")),
        ],
    },
}
