"""Python-AST -> Lean translator for the data-like / decision-table parts of /repo.

Regenerated on every check run; the theorems in OdeVerif/Proofs mention these definitions, so
they are re-checked by `lake build` against what the source says *now*.

Supported subset for functions (`_draw_decision`): parameters (with numeric defaults),
assignments `name = <arith expr>`, `if/elif/else` whose tests are comparisons joined by
and/or/not, `return "<literal>"`.  `np.finfo(float).eps` is mapped to the parameter `eps`.
Anything else raises Unsupported -- the caller then reports the regeneration tie as broken.
"""
import ast
import hashlib
import os

REPO = os.environ.get("ODETOOLBOX_REPO", "/repo")


class Unsupported(Exception):
    pass


def _src(rel):
    with open(os.path.join(REPO, rel)) as f:
        return f.read()


def _find(tree, *path):
    node = tree
    for name in path:
        for ch in ast.iter_child_nodes(node):
            if isinstance(ch, (ast.ClassDef, ast.FunctionDef)) and ch.name == name:
                node = ch
                break
        else:
            raise Unsupported("cannot find %s" % ".".join(path))
    return node


def fingerprint(rel, *path):
    """sha1 of the normalised AST dump (no positions, no docstring) of a function/class."""
    tree = ast.parse(_src(rel))
    node = _find(tree, *path) if path else tree
    body = list(node.body)
    if body and isinstance(body[0], ast.Expr) and isinstance(getattr(body[0], "value", None), ast.Constant) and isinstance(body[0].value.value, str):
        body = body[1:]
    dump = "".join(ast.dump(b, include_attributes=False) for b in body)
    if isinstance(node, ast.FunctionDef):
        dump = ast.dump(node.args, include_attributes=False) + dump
    return hashlib.sha1(dump.encode()).hexdigest()[:16]


FINGERPRINTED = {
    "C01": [("odetoolbox/system_of_shapes.py", "get_block_diagonal_blocks"), ("odetoolbox/system_of_shapes.py", "SystemOfShapes", "_generate_propagator_matrix"), ("odetoolbox/system_of_shapes.py", "SystemOfShapes", "generate_propagator_solver"), ("odetoolbox/system_of_shapes.py", "SystemOfShapes", "get_sub_system")],
    "C02": [("odetoolbox/shapes.py", "Shape", "split_lin_inhom_nonlin"), ("odetoolbox/shapes.py", "is_constant_term"), ("odetoolbox/shapes.py", "Shape", "from_ode"), ("odetoolbox/shapes.py", "Shape", "reconstitute_expr"), ("odetoolbox/system_of_shapes.py", "SystemOfShapes", "from_shapes"), ("odetoolbox/system_of_shapes.py", "SystemOfShapes", "get_sub_system"), ("odetoolbox/system_of_shapes.py", "SystemOfShapes", "reconstitute_expr")],
    "C03": [("odetoolbox/system_of_shapes.py", "SystemOfShapes", "get_dependency_edges"), ("odetoolbox/system_of_shapes.py", "SystemOfShapes", "get_lin_cc_symbols"), ("odetoolbox/system_of_shapes.py", "SystemOfShapes", "propagate_lin_cc_judgements"), ("odetoolbox/__init__.py", "_find_analytically_solvable_equations"), ("odetoolbox/__init__.py", "_from_json_to_shapes")],
    "C04": [("odetoolbox/shapes.py", "Shape", "split_lin_inhom_nonlin"), ("odetoolbox/__init__.py", "_from_json_to_shapes"), ("odetoolbox/__init__.py", "_find_analytically_solvable_equations")],
    "C05": [("odetoolbox/shapes.py", "Shape", "from_function")],
    "C06": [("odetoolbox/system_of_shapes.py", "get_block_diagonal_blocks"), ("odetoolbox/system_of_shapes.py", "SystemOfShapes", "from_shapes"), ("odetoolbox/__init__.py", "_from_json_to_shapes")],
    "C07": [("odetoolbox/config.py", "Config"), ("odetoolbox/__init__.py", "_read_global_config"), ("odetoolbox/__init__.py", "_analysis")],
    "C08": [("odetoolbox/__init__.py", "_analysis"), ("odetoolbox/system_of_shapes.py", "SystemOfShapes", "generate_propagator_solver"), ("odetoolbox/system_of_shapes.py", "SystemOfShapes", "generate_numeric_solver")],
    "C09": [("odetoolbox/shapes.py", "Shape", "from_json"), ("odetoolbox/shapes.py", "Shape", "__init__"), ("odetoolbox/shapes.py", "Shape", "_parse_defining_expression"), ("odetoolbox/__init__.py", "_read_global_config")],
    "C10": [("odetoolbox/system_of_shapes.py", "SystemOfShapes", "get_jacobian_matrix"), ("odetoolbox/mixed_integrator.py", "MixedIntegrator", "numerical_jacobian")],
    "C11": [("odetoolbox/singularity_detection.py", "SingularityDetection")],
    "C12": [("odetoolbox/analytic_integrator.py", "AnalyticIntegrator", "get_value"), ("odetoolbox/analytic_integrator.py", "AnalyticIntegrator", "reset"), ("odetoolbox/integrator.py", "Integrator", "set_spike_times")],
    "C13": [("odetoolbox/mixed_integrator.py", "MixedIntegrator", "integrate_ode"), ("odetoolbox/mixed_integrator.py", "MixedIntegrator", "step"),
            ("odetoolbox/integrator.py", "Integrator", "set_spike_times")],
    "C14": [("odetoolbox/stiffness.py", "StiffnessTester", "_draw_decision"), ("odetoolbox/stiffness.py", "StiffnessTester", "_evaluate_integrator"), ("odetoolbox/stiffness.py", "StiffnessTester", "check_stiffness")],
    "C15": [("odetoolbox/spike_generator.py", "SpikeGenerator")],
    "C16": [("ode_analyzer.py",)],
}


def fingerprints(prop):
    out = {}
    for item in FINGERPRINTED.get(prop, []):
        try:
            out["::".join(item)] = fingerprint(*item)
        except Exception as e:
            out["::".join(item)] = "ERR " + str(e)
    return out


# ---------------------------------------------------------------------------------------------
#  expression / statement translation
# ---------------------------------------------------------------------------------------------

_CMP = {ast.Gt: ">", ast.Lt: "<", ast.GtE: "≥", ast.LtE: "≤", ast.Eq: "=", ast.NotEq: "≠"}
_BIN = {ast.Mult: "*", ast.Add: "+", ast.Sub: "-", ast.Div: "/"}


def _is_eps(node):
    # np.finfo(float).eps
    return (isinstance(node, ast.Attribute) and node.attr == "eps" and isinstance(node.value, ast.Call)
            and isinstance(node.value.func, ast.Attribute) and node.value.func.attr == "finfo")


class _Tr:
    def __init__(self):
        self.ops = set()

    def expr(self, e):
        if _is_eps(e):
            return "eps"
        if isinstance(e, ast.Name):
            return e.id
        if isinstance(e, ast.BinOp) and type(e.op) in _BIN:
            self.ops.add(type(e.op).__name__)
            return "(%s %s %s)" % (self.expr(e.left), _BIN[type(e.op)], self.expr(e.right))
        raise Unsupported("expression " + ast.dump(e)[:80])

    def test(self, e):
        if isinstance(e, ast.BoolOp):
            op = " ∧ " if isinstance(e.op, ast.And) else " ∨ "
            return "(" + op.join(self.test(v) for v in e.values) + ")"
        if isinstance(e, ast.UnaryOp) and isinstance(e.op, ast.Not):
            return "(¬ %s)" % self.test(e.operand)
        if isinstance(e, ast.Compare) and len(e.ops) == 1 and type(e.ops[0]) in _CMP:
            self.ops.add(type(e.ops[0]).__name__)
            return "(%s %s %s)" % (self.expr(e.left), _CMP[type(e.ops[0])], self.expr(e.comparators[0]))
        raise Unsupported("test " + ast.dump(e)[:80])

    def stmts(self, body, ind):
        if not body:
            raise Unsupported("control reaches end of function without return")
        s, rest = body[0], body[1:]
        pad = "  " * ind
        if isinstance(s, ast.Expr) and isinstance(s.value, ast.Constant) and isinstance(s.value.value, str):
            return self.stmts(rest, ind)
        if isinstance(s, ast.Assign) and len(s.targets) == 1 and isinstance(s.targets[0], ast.Name):
            return "%slet %s := %s\n%s" % (pad, s.targets[0].id, self.expr(s.value), self.stmts(rest, ind))
        if isinstance(s, ast.Return) and isinstance(s.value, ast.Constant) and isinstance(s.value.value, str):
            return '%s"%s"' % (pad, s.value.value)
        if isinstance(s, ast.If):
            then_returns = self._always_returns(s.body)
            if then_returns:
                els = list(s.orelse) + (rest if not self._always_returns(s.orelse) else [])
            else:
                raise Unsupported("if-branch that falls through")
            return "%sif %s then\n%s\n%selse\n%s" % (pad, self.test(s.test), self.stmts(s.body, ind + 1), pad,
                                                    self.stmts(els, ind + 1))
        raise Unsupported("statement " + ast.dump(s)[:80])

    def _always_returns(self, body):
        if not body:
            return False
        last = body[-1]
        if isinstance(last, ast.Return):
            return True
        if isinstance(last, ast.If):
            return self._always_returns(last.body) and self._always_returns(last.orelse)
        return False


def translate_draw_decision():
    tree = ast.parse(_src("odetoolbox/stiffness.py"))
    fn = _find(tree, "StiffnessTester", "_draw_decision")
    args = [a.arg for a in fn.args.args if a.arg != "self"]
    defaults = fn.args.defaults
    dnames = args[len(args) - len(defaults):]
    dvals = []
    for d in defaults:
        if isinstance(d, ast.Constant) and isinstance(d.value, (int, float)) and not isinstance(d.value, bool):
            dvals.append(d.value)
        else:
            raise Unsupported("non-numeric default")
    tr = _Tr()
    body = tr.stmts(list(fn.body), 1)
    classes = []
    if "Mult" in tr.ops:
        classes.append("[Mul α]")
    if "Add" in tr.ops:
        classes.append("[Add α]")
    if "Sub" in tr.ops:
        classes.append("[Sub α]")
    if "Div" in tr.ops:
        classes.append("[Div α]")
    if tr.ops & {"Gt", "Lt"}:
        classes += ["[LT α]", "[DecidableLT α]"]
    if tr.ops & {"GtE", "LtE"}:
        classes += ["[LE α]", "[DecidableLE α]"]
    if tr.ops & {"Eq", "NotEq"}:
        classes += ["[DecidableEq α]"]
    lean = []
    lean.append("/-! GENERATED from /repo/odetoolbox/stiffness.py (StiffnessTester._draw_decision) -- do not edit. -/")
    lean.append("namespace OdeVerif.Generated\n")
    lean.append("/-- literal translation of `_draw_decision`; `np.finfo(float).eps` is the parameter `eps` -/")
    lean.append("def drawDecision {α : Type} %s\n    (eps : α) (%s : α) : String :=" % (" ".join(classes), " ".join(args)))
    lean.append(body)
    lean.append("")
    lean.append("/-- argument names in source order -/")
    lean.append("def drawDecisionArgs : List String := [%s]" % ", ".join('"%s"' % a for a in args))
    lean.append("/-- defaults of the trailing parameters, as written in the source -/")
    lean.append("def drawDecisionDefaults : List (String × Nat) := [%s]" % ", ".join(
        '("%s", %d)' % (n, v) if float(v).is_integer() and v >= 0 else _unsupported("non-natural default %r" % v) for n, v in zip(dnames, dvals)))
    lean.append("\nend OdeVerif.Generated\n")
    return "\n".join(lean), {"args": args, "defaults": dict(zip(dnames, dvals))}


def _unsupported(msg):
    raise Unsupported(msg)


def _lit(v):
    if isinstance(v, bool):
        return ("bool", "true" if v else "false")
    if isinstance(v, int):
        return ("int", str(v))
    if isinstance(v, float):
        return ("float", repr(v))
    if isinstance(v, str):
        return ("str", v)
    raise Unsupported("literal %r" % (v,))


def _lean_str(s):
    return '"' + s.replace("\\", "\\\\").replace('"', '\\"') + '"'


def _fn_defaults(fn):
    args = [a.arg for a in fn.args.args]
    defaults = fn.args.defaults
    out = {}
    for n, d in zip(args[len(args) - len(defaults):], defaults):
        try:
            out[n] = ast.literal_eval(d)
        except Exception:
            out[n] = ast.unparse(d)
    return out


def translate_constants():
    info = {}
    # Config.config
    tree = ast.parse(_src("odetoolbox/config.py"))
    cls = _find(tree, "Config")
    cfg = None
    for st in cls.body:
        if isinstance(st, ast.Assign) and any(isinstance(t, ast.Name) and t.id == "config" for t in st.targets):
            cfg = st.value
    if not isinstance(cfg, ast.Dict):
        raise Unsupported("Config.config is not a dict literal")
    entries = []
    for k, v in zip(cfg.keys, cfg.values):
        key = ast.literal_eval(k)
        val = ast.literal_eval(v)
        entries.append((key,) + _lit(val))
    info["config"] = entries
    # Shape._sympy_globals keys
    tree = ast.parse(_src("odetoolbox/shapes.py"))
    cls = _find(tree, "Shape")
    glob = None
    for st in cls.body:
        if isinstance(st, ast.Assign) and any(isinstance(t, ast.Name) and t.id == "_sympy_globals" for t in st.targets):
            glob = st.value
    if not isinstance(glob, ast.Dict):
        raise Unsupported("_sympy_globals is not a dict literal")
    reserved = [ast.literal_eval(k) for k in glob.keys]
    info["reserved"] = reserved
    ff = _fn_defaults(_find(tree, "Shape", "from_function"))
    info["from_function"] = ff
    tree = ast.parse(_src("odetoolbox/spike_generator.py"))
    pd = _fn_defaults(_find(tree, "SpikeGenerator", "_generate_homogeneous_poisson_spikes"))
    info["poisson"] = pd
    if not (isinstance(ff.get("max_t"), int) and isinstance(ff.get("max_order"), int)):
        raise Unsupported("from_function defaults")
    lean = []
    lean.append("/-! GENERATED from /repo (config.py, shapes.py, spike_generator.py) -- do not edit. -/")
    lean.append("namespace OdeVerif.Generated\n")
    lean.append("/-- `Config.config` as written: (key, kind, python repr) -/")
    lean.append("def configDefaults : List (String × String × String) := [")
    lean.append(",\n".join("  (%s, %s, %s)" % (_lean_str(k), _lean_str(kind), _lean_str(v)) for k, kind, v in entries))
    lean.append("]\n")
    lean.append("/-- keys of `Shape._sympy_globals` (names a variable may not take) -/")
    lean.append("def reservedNames : List String := [%s]\n" % ", ".join(_lean_str(r) for r in reserved))
    lean.append("def fromFunctionMaxT : Nat := %d" % ff["max_t"])
    lean.append("def fromFunctionMaxOrder : Nat := %d" % ff["max_order"])
    lean.append("/-- default `min_isi` of the Poisson generator, python repr -/")
    lean.append("def poissonMinIsiRepr : String := %s" % _lean_str(repr(pd.get("min_isi"))))
    lean.append("\nend OdeVerif.Generated\n")
    return "\n".join(lean), info


def _write_if_changed(path, content):
    old = None
    if os.path.exists(path):
        with open(path) as f:
            old = f.read()
    if old != content:
        with open(path, "w") as f:
            f.write(content)
        return True
    return False


def translate_cli():
    """ode_analyzer.py as data: the argparse table, which attribute of the parsed arguments feeds which keyword of the
    `odetoolbox.analysis` call, the normalisation of --preserve-expressions, the expression the result name is computed
    from, and the order of the steps (with their exits).  `Proofs/RefineCli.lean` states that these are what `Model/Cli.lean`
    assumes."""
    tree = ast.parse(_src("ode_analyzer.py"))
    main = None
    for node in tree.body:
        if isinstance(node, ast.If) and "__main__" in ast.unparse(node.test):
            main = node
    if main is None:
        raise Unsupported("no `if __name__ == '__main__'` block")
    args, kws, steps = [], None, []
    norm, resname = None, None

    def lit(e):
        try:
            return repr(ast.literal_eval(e))
        except Exception:
            return ast.unparse(e)
    for st in main.body:
        u = ast.unparse(st)
        if isinstance(st, ast.Assign) and "ArgumentParser" in u:
            steps.append("make-parser")
        elif isinstance(st, ast.Expr) and isinstance(st.value, ast.Call) and u.startswith("argparser.add_argument"):
            c = st.value
            kw = {k.arg: k.value for k in c.keywords}
            args.append((ast.literal_eval(c.args[0]), lit(kw["action"]) if "action" in kw else "", lit(kw["nargs"]) if "nargs" in kw else "",
                         lit(kw["default"]) if "default" in kw else "", lit(kw["type"]) if "type" in kw else ""))
        elif isinstance(st, ast.Assign) and "parse_args" in u:
            steps.append("parse-args")
        elif isinstance(st, ast.If) and "preserve_expressions" in ast.unparse(st.test):
            norm = u
            steps.append("normalise-preserve")
        elif u.startswith("_init_logging") or u.startswith("logging."):
            steps.append("log")
        elif isinstance(st, ast.If) and "os.path.isfile" in ast.unparse(st.test):
            exits = [ast.unparse(x) for x in ast.walk(st) if isinstance(x, ast.Call) and ast.unparse(x.func) == "sys.exit"]
            steps.append("missing-file:" + "|".join([ast.unparse(st.test)] + exits))
        elif isinstance(st, ast.With) and "json.load" in u:
            exits = [ast.unparse(x) for x in ast.walk(st) if isinstance(x, ast.Call) and ast.unparse(x.func) == "sys.exit"]
            hs = [ast.unparse(h.type) if h.type else "bare" for x in ast.walk(st) if isinstance(x, ast.Try) for h in x.handlers]
            steps.append("load-json:" + "|".join(hs + exits))
        elif isinstance(st, ast.Try) and "odetoolbox.analysis" in u:
            call = next(x for x in ast.walk(st) if isinstance(x, ast.Call) and ast.unparse(x.func) == "odetoolbox.analysis")
            kws = [(k.arg, ast.unparse(k.value)) for k in call.keywords]
            pos = [ast.unparse(a) for a in call.args]
            exits = [ast.unparse(x) for x in ast.walk(st) if isinstance(x, ast.Call) and ast.unparse(x.func) == "sys.exit"]
            hs = [ast.unparse(h.type) if h.type else "bare" for h in st.handlers]
            steps.append("analysis:" + "|".join(pos + hs + exits))
            if st.finalbody or st.orelse:
                raise Unsupported("try/else or try/finally around the analysis call")
        elif isinstance(st, ast.Assign) and "_result.json" in u:
            steps.append("result-name:" + ast.unparse(st.value))
        elif isinstance(st, ast.Assign) and "basename" in u and isinstance(st.targets[0], ast.Name):
            resname = u
            steps.append("result-stem")
        elif isinstance(st, ast.With) and "outfile.write" in u:
            steps.append("write:" + "|".join(ast.unparse(x) for x in ast.walk(st) if isinstance(x, ast.Call) and ast.unparse(x.func) in ("open", "outfile.write")))
        else:
            raise Unsupported("statement of the script not recognised: " + u[:80])
    if kws is None or norm is None or resname is None:
        raise Unsupported("analysis call / preserve normalisation / result name not found")
    lean = ["/-! GENERATED from /repo/ode_analyzer.py -- do not edit. -/", "namespace OdeVerif.Generated", "",
            "/-- `argparser.add_argument(...)` calls: (name, action, nargs, default, type) as written -/",
            "def cliArguments : List (String × String × String × String × String) := [",
            ",\n".join("  (" + ", ".join(_lean_str(x) for x in a) + ")" for a in args), "]", "",
            "/-- keyword arguments of the `odetoolbox.analysis` call and the expressions they are fed from -/",
            "def cliApiKeywords : List (String × String) := [" + ", ".join("(%s, %s)" % (_lean_str(k), _lean_str(v)) for k, v in kws) + "]", "",
            "/-- the normalisation of `--preserve-expressions`, verbatim -/",
            "def cliPreserveNormalisation : String := " + _lean_str(norm).replace("\n", "\\n"), "",
            "/-- the statement computing the stem of the result file name, verbatim -/",
            "def cliResultStem : String := " + _lean_str(resname), "",
            "/-- the steps of the script in order, with the tests / handlers / exits they contain -/",
            "def cliSteps : List String := [", ",\n".join("  " + _lean_str(x) for x in steps), "]", "", "end OdeVerif.Generated", ""]
    return "\n".join(lean), {"args": len(args), "keywords": kws, "steps": len(steps)}


def translate_group(gname):
    """one Generated/Py*.lean file from harness/translate/specs.py via the generic translator"""
    from . import py2lean, specs
    g = specs.GROUPS[gname]
    out = ["import " + m for m in g["imports"]]
    out += ["/-! GENERATED from /repo by harness/translate/py2lean.py -- do not edit.",
            "Literal translation of the Python bodies named below; modelling decisions (types, renderings of",
            "attribute accesses and external calls) are in harness/translate/specs.py. -/"]
    out += ["", "set_option linter.unusedVariables false", "", "namespace OdeVerif.Generated", "open OdeVerif", ""]
    info = {}
    for path, spec in g["functions"]:
        if g["file"] is None:
            rel, path = path[0], path[1:]
        else:
            rel = g["file"]
        try:
            text, meta = py2lean.translate(_src(rel), path, spec)
        except py2lean.Unsupported as e:
            raise Unsupported("%s: %s" % (".".join(path), e))
        out.append("-- source: %s :: %s" % (rel, ".".join(path)))
        if meta["dropped"]:
            out.append("-- dropped (raise-only) statements: " + " | ".join(d.replace("\n", " ") for d in meta["dropped"]))
        out.append(text)
        info[spec.name] = meta
    out.append("end OdeVerif.Generated\n")
    return "\n".join(out), info


def regenerate_all(outdir, only=None):
    os.makedirs(outdir, exist_ok=True)
    res = {"changed": [], "errors": {}, "info": {}}
    from . import specs as _specs
    jobs = [("DrawDecision", translate_draw_decision), ("Constants", translate_constants), ("CliTable", translate_cli)]
    jobs += [(g, (lambda g=g: translate_group(g))) for g in _specs.GROUPS]
    if only:
        jobs = [j for j in jobs if j[0] in only]
    for name, fn in jobs:
        try:
            content, info = fn()
            res["info"][name] = info
            if _write_if_changed(os.path.join(outdir, name + ".lean"), content):
                res["changed"].append(name)
        except Unsupported as e:
            res["errors"][name] = "unsupported: " + str(e)
        except Exception as e:
            res["errors"][name] = type(e).__name__ + ": " + str(e)
        if name in res["errors"] and name.startswith("Py"):
            # leave no stale definition behind: a file that does not compile, so that the refinement theorems about it
            # are reported as not discharged until the source can be translated again
            stub = "/-! regeneration from /repo FAILED: %s -/\n#check (regeneration_failed_see_header : Unit)\n" % res["errors"][name].replace("-/", "- /")
            if _write_if_changed(os.path.join(outdir, name + ".lean"), stub):
                res["changed"].append(name)
    return res


if __name__ == "__main__":
    import json
    import sys
    args = [a for a in sys.argv[1:] if not a.startswith("--only=")]
    only = [a.split("=", 1)[1].split(",") for a in sys.argv[1:] if a.startswith("--only=")]
    out = args[0] if args else os.path.join(os.path.dirname(__file__), "..", "..", "lean", "OdeVerif", "Generated")
    print(json.dumps(regenerate_all(out, only[0] if only else None), indent=1, default=str))
