#!/usr/bin/env python3
"""Print DESIGN.md table rows (section 11.4) for the seeded changes S<first>.. from their meta.json; the last column
comes from seeded/<id>/meta.json: "first_version" (written by hand after the first try)."""
import json, os, sys
HERE = os.path.abspath(os.path.join(os.path.dirname(__file__), ".."))
first = int(sys.argv[1]) if len(sys.argv) > 1 else 1
import re as _re
def _num(d):
    m_ = _re.match(r"S(\d+)-", d)
    return int(m_.group(1)) if m_ else -1
for d in sorted(os.listdir(os.path.join(HERE, "seeded")), key=_num):
    if _num(d) < first:
        continue
    m = json.load(open(os.path.join(HERE, "seeded", d, "meta.json")))
    conf = m.get("confirmed", {})
    raw = m.get("result_now") or conf.get("checks_run_with_patch_applied_to_repo", "")
    import re
    parts = []
    for chk in sorted(set(re.findall(r"\[(C\d\d) quick", raw))):
        seg = [x for x in raw.split(";") if ("property=" + chk) in x or ("[" + chk + " quick") in x]
        viol = [x for x in seg if "VIOLATION" in x]
        if not viol:
            parts.append(chk + " quiet")
        elif all("no-failing-input-found" in x for x in viol):
            parts.append(chk + " **caught** (no-failing-input-found)")
        else:
            parts.append(chk + " **caught**")
    res = ", ".join(parts) or raw
    cells = [d, m["property"], m["summary"].replace("|", "/")[:170], str(m.get("needs", "")).replace("|", "/")[:170], res.replace("|", "/")[:200], m.get("first_version", "")]
    print("| " + " | ".join(cells) + " |")
