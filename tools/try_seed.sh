#!/bin/bash
# tools/try_seed.sh <seed-id> <worktree path literal used inside demo.py> <check ids...>
# files are read from /verif/seeded/<seed-id>/   1. confirm demo PASS on a clean scratch worktree, FAIL with the patch
# 3. (optionally, CONFIRM_TESTS=1) run the repo's test suite with the patch   4. apply to /repo, run the given checks, undo.
set -u
ID="$1"; WT="$2"; shift 2
V=/verif; D=$V/seeded/$ID
[ -f "$D/patch.diff" ] || exit 2
S=/tmp/seedcheck_$ID
git -C /repo worktree remove --force "$S" >/dev/null 2>&1
git -C /repo worktree add -q --detach "$S" HEAD || exit 2
sed "s#$WT#$S#g" "$D/demo.py" > "$S/_demo.py"
( cd "$S" && timeout 900 /venv/bin/python _demo.py > "$D/demo_clean.log" 2>&1 ); RC_CLEAN=$?
git -C "$S" apply "$D/patch.diff" || { echo "patch does not apply"; exit 2; }
( cd "$S" && timeout 900 /venv/bin/python _demo.py > "$D/demo_patched.log" 2>&1 ); RC_PATCHED=$?
TESTS="not-run"
if [ "${CONFIRM_TESTS:-0}" = "1" ]; then
  TESTS=$( cd "$S" && env -u ODETOOLBOX_VERIF /venv/bin/python -m pytest -q -p no:cacheprovider --timeout=900 -n 6 2>&1 | tail -1 )
fi
git -C /repo worktree remove --force "$S"
echo "[$ID] demo clean rc=$RC_CLEAN patched rc=$RC_PATCHED tests: $TESTS"
# run the checks against /repo with the patch applied
git -C /repo diff --quiet || { echo "/repo is dirty, refusing"; exit 2; }
git -C /repo apply "$D/patch.diff" || exit 2
RES=""
for c in "$@"; do
  OUT=$( cd $V && ./check $c quick 2>&1 | grep -E "^VIOLATION|^KNOWN|exit [0-9]" | tr '\n' ';' )
  RES="$RES $c: $OUT"
  echo "   $c -> $OUT"
done
git -C /repo checkout -- . 
git -C /repo status --short | grep -v "^??" | head -3
python3 - "$D" "$RC_CLEAN" "$RC_PATCHED" "$TESTS" "$RES" <<'PY'
import json, sys
d, rc0, rc1, tests, res = sys.argv[1:6]
m = json.load(open(d + "/meta.json"))
m["confirmed"] = {"demo_on_clean_tree_rc": int(rc0), "demo_with_patch_rc": int(rc1), "tests_with_patch": tests,
                  "checks_run_with_patch_applied_to_repo": res.strip()}
json.dump(m, open(d + "/meta.json", "w"), indent=1)
PY
