#!/usr/bin/env python3
"""Write MANIFEST.json from the table below (single source of truth for what is claimed)."""
import json
import os

HERE = os.path.abspath(os.path.join(os.path.dirname(__file__), ".."))
TB_COMMON = ("Trusted: Lean 4.33 kernel + Mathlib v4.33, axioms propext/Classical.choice/Quot.sound only (audited by #print axioms every run); "
             "the hand model's fidelity to the Python source is checked by this run's correspondence (differential, bounded by the generators); "
             "SymPy/NumPy/SciPy behaviour is taken on contract (DESIGN.md 1.1) and spot-validated per sampled input. ")

CLAIMED = {
    "C14": dict(
        technique="Lean 4 theorem over every ordered field about the decision function re-translated from _draw_decision's AST on each run; RNG-protocol model + correspondence",
        text="Proof: drawDecision_table / drawDecision_clauses hold for all step-size quadruples and ratio settings over any linearly ordered field, for the Lean function regenerated from the Python AST on this run; fairness/reproducibility proved on an RNG-protocol model (benchmarks_same_stimulus) whose hypothesis (the stimulus generator's RNG is re-seeded) is read off the source and whose event trace is compared with the real check_stiffness through a PyGSL stand-in; end to end, check_stiffness()'s answer is compared with the regenerated decision function applied to the step sizes integrate_ode actually returned (scripted stepper dictating sub-epsilon steps), and the stimulus generated for a fixed seed is compared across fresh interpreters with different PYTHONHASHSEED.",
        note=TB_COMMON + "Measured step sizes come from a stand-in for pygsl.odeiv; floating-point rounding of the two products is outside the theorem (the Float instance of the same definition is compared bit-for-bit with the code).",
        ref="DESIGN.md 4 C14"),
}

CLAIMED["C15"] = dict(
    technique="Lean 4 theorems over every linearly ordered field about polymorphic models of the three generators and the dispatch; same definitions run at Float (bit-exact) and Rat against the real generators",
    text="Proof: regular_exact/regular_spec/regular_fuel (exactly the multiples of 1/rate in (0,T], none missing, termination), poisson_spec (strictly increasing, in (0,T], gaps >= min_isi, for every draw stream), list_spec (+ empty and single-element cases), targets_rewritten / fromJson_key_train / fromJson_keys_nodup (own train per target, accumulation, primes rewritten) - for all inputs over any linearly ordered field. Tie: the same Lean definitions instantiated at IEEE Float are compared bit-for-bit with the real SpikeGenerator on every run (Rat on dyadic inputs), plus independent oracles.",
    note=TB_COMMON + "Rounding (the ordered-field theorem vs doubles), math.log, random.random and numpy.loadtxt parsing are outside the model; inter-spike intervals computed by the code are passed to the model as exact doubles.",
    ref="DESIGN.md 4 C15")
CLAIMED["C12"] = dict(
    technique="Lean 4 invariant proof over arbitrary operation histories of a state-machine model of get_value/reset/cache toggles, for every propagation function; recorder-based correspondence with the real class",
    text="Proof: getValue_history_independent - for every propagation function (no law assumed), every strictly increasing spike list, both caching modes and every finite history of queries/toggles/resets the answer for t is spec t (propagate spike to spike, apply all spikes in (0,t]); setSpikeTimes_sorted/grouped (merge keeps every (time,variable) occurrence, strictly increasing); spec_zero/spec_flow/spec_jump characterise spec as the exact impulse-driven solution given the semigroup law (C01). Tie: the real AnalyticIntegrator runs unmodified except _update_step, which records history terms; terms are compared with the model's for random histories; numeric oracle against a 40-digit piecewise reference.",
    note=TB_COMMON + "IEEE time arithmetic is assumed to satisfy a<b -> 0<b-a; Cython autowrap is replaced by lambdify in quick runs; the exactness of the propagators themselves is C01.",
    ref="DESIGN.md 4 C12")

CLAIMED["C03"] = dict(
    technique="Lean 4 worklist-invariant proof (termination, soundness, closure, greatest fixed point, permutation invariance) for all dependency graphs; traced-stage correspondence with the real analysis",
    text="Proof: for every system size and every dependency graph the worklist terminates within n+1 pops (propagate_terminates), only demotes (propagate_below / analytic_sound), ends dependency-closed (propagate_closed / analytic_closed), is the greatest closed subset of the eligible variables (propagate_greatest), is invariant under re-ordering the entries (verdict_perm_invariant), and analytic ++ numeric is an exact cover (partition_exact_cover). Tie: the three verdict stages and the symbol lists handed to get_sub_system, observed by wrapping the real methods, are compared with the model on every generated system; independent differential-criterion oracle on the returned solvers.",
    note=TB_COMMON + "The per-shape linear-constant-coefficient judgement is an input of the graph model (its soundness is the split model of C02/C04); SciPy's strong components are compared with the model's own closure on every case.",
    ref="DESIGN.md 4 C03")

CLAIMED["C13"] = dict(
    technique="Lean 4 invariant proofs about a model of the integrate_ode event loop with an arbitrary stepper (contract: progresses, never overshoots); scripted-stepper correspondence with the real loop",
    text="Proof (PARTIAL - event/bookkeeping logic only): for every stepper satisfying GoodApply, every strictly increasing positive spike list, every max_step>0 and sim_time: the log starts at the initial values, times strictly increase and end exactly at sim_time, in precise mode every spike before the end is applied exactly once at its own time, in aliased mode exactly once at a boundary tau with tau-max_step < t_spike <= tau, after every step out-of-bound variables equal their initial value, and (analytic_seen_exact, a corollary of C12's history-independence over the operation pattern integrate_ode performs on its analytic integrator) every analytic value the numeric part sees is the exact solution whatever the stepper evaluates. Tie: the operation pattern is recorded from real runs and matched against the model's; a run after an overridden run on the same object is compared with a fresh object; the real integrate_ode(debug=True) runs unmodified against a scripted pygsl stand-in whose stepping function is shared bit-for-bit with the Lean driver; t_log / y_log / crossed compared exactly.",
    note=TB_COMMON + "NOT covered by any model: accuracy between events, the real GSL steppers, floating point, the values the analytic integrator feeds into step() (C12 covers the analytic integrator itself). These are observed through a numerical stand-in only.",
    ref="DESIGN.md 4 C13")
CLAIMED["C10"] = dict(
    technique="Lean 4 theorem for any derivation on a commutative ring about the expression the code differentiates; value-level correspondence of that expression and independent differentiation oracle",
    text="Proof: jacobian_correct - for every derivation D (additive, Leibniz) with D(A_ik)=0 and D(x_k)=delta_jk, D applied to the expression built by get_jacobian_matrix (c_i + sum_k A_ik x_k) equals A_ij + D c_i, the derivative of the complete right-hand side; jacobian_prefix_defect shows the pre-repair expression loses the linear part. Tie: the expression actually handed to sympy.diff is captured and its value at a random rational point compared with the model's; the resulting J is compared with an independent differentiation of the user's text; the numerical clause (numerical_jacobian vs finite differences of step) is observed through the stand-in.",
    note=TB_COMMON + "sympy.diff is taken to be a derivation (contract). The numerical clause is a runtime observation (lambdify instead of Cython autowrap in quick runs), not a theorem.",
    ref="DESIGN.md 4 C10")

CLAIMED["C02"] = dict(
    technique="Lean 4 theorems over any commutative ring about the term-wise split and the assembly/sub-system/numeric-expression algebra; per-term bucket correspondence with the real split and value-level correspondence of get_sub_system",
    text="Proof: split_lossless (the three buckets add up to the expression for every term list, every parameter set and variable order; first match wins), split_const_coeffs, fromOde_lossless (re-attachment of foreign linear terms), unit_row_value (lower derivatives), subsystem_lossless (discarded columns moved into c), numericRhs_eq_row and the composition numericRhs_eq_userRhs - for all sizes and values over any commutative ring. Tie: every call of split_lin_inhom_nonlin made by the real analysis is recorded and the bucket of every term compared with the model's; get_sub_system's c and the Jacobian row expression are compared on values at random rational points; direct oracle: returned numeric update expressions vs the user's text at random points, preserved text compared verbatim, all flag combinations swept.",
    note=TB_COMMON + "Denotation-preservation of parse_expr/str/expand/simplify/collect and of the user's simplify_expression are contracts (spot-validated by the value comparisons).",
    ref="DESIGN.md 4 C02")
CLAIMED["C04"] = dict(
    technique="Lean 4 theorems: completeness of the term classification on canonical linear terms + greatest-fixed-point characterisation of the verdict (order-independent); spelling sweep against an independent differential criterion",
    text="Proof: classify_complete_lin/const and canonical_linear_no_nonlin (a right-hand side whose expanded terms are k*x or parameter-only has an empty nonlinear part, for any number and order of terms), parameterSymbols_spec, and from the graph model tractable_recognised / propagate_greatest (every dependency-closed set of eligible variables is solved analytically) and verdict_perm_invariant; for right-hand sides in the Laurent-polynomial grammar the dependence on the spelling is itself a theorem: C04b.linearCC_iff / spelling_invariant (the executable expand-and-collect verdict equals the semantic one on the denoted Laurent polynomial, hence any two spellings of the same polynomial get the same verdict) with den_ring_rules. Tie/search: the model's verdict on the user's own (unevaluated) spelling is compared with the toolbox's judgement of every polynomial entry (op poly-verdict); 6-10 algebraically equal spellings and entry orders per ground truth; the code's analytic set must contain the independently computed expected set and must not vary across spellings; split and verdict correspondences as in C02/C03.",
    note=TB_COMMON + "Outside the Laurent-polynomial grammar (function applications, non-integer powers) independence of the spelling rests on sympy's expand() producing a sum of monomial terms with like terms combined (contract, validated per case by the split correspondence and the independent differential criterion).",
    ref="DESIGN.md 4 C04")

CLAIMED["C01"] = dict(
    technique="Lean 4 / Mathlib theorems about exp(h*A) over the reals (identity, derivative, semigroup, uniqueness, component-wise exponential) tied to an executable model of the component cut and update-expression assembly; end-to-end differential oracle on returned dictionaries",
    text="Proof: for every dimension n, every real A, b, every state and every step size (also negative): if the model's assembly succeeds with a zero-pattern that is sound for exp(hA), the assembled update map satisfies flow_identity, flow_deriv (d/dh = A u + b at the updated state), flow_semigroup and is THE solution operator (analytic_solver_exact, via affine_flow_unique); blocks_sound: exponentiating each connected component on its own (not necessarily adjacent) index set and scattering gives exactly exp(hA), for any labelling passing the model's check - and ReachSpec.label_ok / prop_reach_iff show the model's own closure-based labelling always passes it and is exactly connectivity; sum_mirror_unsound records the pre-repair defect. Tie: components and assembled expressions (incl. guarded error paths) compared with the real get_connected_component_indices / generate_propagator_solver on values at random rational points with propagator symbols as independent indeterminates; direct oracle differentiates the returned propagator strings.",
    note=TB_COMMON + "SymPy's exp(Matrix) and simplify are contracts: entries are those of the true exponential and reported zeros are identically zero (checked end-to-end per case by the d/dh oracle at 40 digits). The get_sub_system extraction step is C02's subsystem_lossless plus C03's closure.",
    ref="DESIGN.md 4 C01")

CLAIMED["C07"] = dict(
    technique="Lean 4 theorem over all call histories of an option-store state machine (policy read off the source); fresh-interpreter differential oracle incl. PYTHONHASHSEED and input immutability",
    text="Proof: probe_history_independent / run_pointwise - for every history of calls (any options blocks, simplify_expression arguments, failing calls, calls without dynamics) the outcome of a probe equals the outcome of the same call first in a fresh interpreter, for an arbitrary analysis function of (effective options, input, flags); unspecified_takes_default; defaults_documented (table regenerated from config.py); unknown_option_rejected; prefix_history_dependent proves the pre-repair policy violated the property. Tie: the policy (Config.reset() before the options are read) is read off the AST; the option store after every call of random histories, run in fresh interpreters, is compared with the model's; the oracle compares the canonical mathematical content of the probe's result after the history with the probe alone under several PYTHONHASHSEED values and checks that indict is unmodified.",
    note=TB_COMMON + "That the real code reads options only through Config, input immutability and hash-seed independence are runtime facts observed by the oracle, not proved. Doc says 1E-9 for the accuracies, code 1E-6: recorded, not judged.",
    ref="DESIGN.md 4 C07")
CLAIMED["C09"] = dict(
    technique="Lean 4 theorems over all well-formed entries (any identifier, order, right-hand side) and every corruption constructor at every slot, about a string-level model of the structural checks; exhaustive corruption enumeration against the real analysis",
    text="Proof: wellformed_accepted (every entry in the documented format, of any order, passes) and one rejection theorem per corruption kind (no expression; '=' count; initial values missing / wrong number / other variable / order too high / duplicated / both spellings / single value on non-first order; reserved name; marker in name), each for every well-formed base entry and every slot; validateAll_first_bad lifts to lists of entries. Tie: for orders 0..3 every corruption kind at every entry position and slot is run through the real analysis(); exception class and the specific malformed-input message are compared with the model's outcome.",
    note=TB_COMMON + "ASCII identifiers/white space only; parsing of the right-hand side by SymPy is outside the model ('ok' = passes the structural checks); JSON object order = Python dict order.",
    ref="DESIGN.md 4 C09")

CLAIMED["C16"] = dict(
    technique="Lean 4 theorems about a model of the script's control flow, flag mapping and result-file naming (string lemmas on List Char); subprocess differential runs of the real script against the in-process API",
    text="Proof (PARTIAL - script logic): flags_passed_through (incl. bare --preserve-expressions = True), content_eq_api / written_iff_all_succeeded / failure_nonzero_no_file for arbitrary file-system, JSON-loader and API behaviour, resultName_spec / resultName_last_extension_only / resultName_no_extension for all paths (directories with dots included). Tie: the real ode_analyzer.py is run in a subprocess in a temporary directory on generated files (valid, missing, invalid JSON, malformed system) under all flag combinations, file placements and extensions; exit status, produced file name and content are compared with the model and with the in-process analysis().",
    note=TB_COMMON + "argparse semantics, the interpreter's exit status for an uncaught exception, json and the file system are contracts observed through the runs, not modelled.",
    ref="DESIGN.md 4 C16")

CLAIMED["C06"] = dict(
    technique="Lean 4 equivariance theorems (renaming, permutation) for the split, eligibility, worklist, matrix exponential and assembly models; metamorphic differential runs of the real analysis on transformed twins",
    text="Proof: classify_rename_invariant (any injective renaming leaves every term's bucket unchanged), eligible_perm_invariant + C03.verdict_perm_invariant (the analytic set does not depend on entry order), P_perm_equivariant (exp of the re-ordered matrix is the re-ordered exp), assemble_perm_ok (re-ordering never turns success into an error) and evalRow_perm_equivariant (update maps agree up to the permutation), chain_row_is_unit (a chain of first-order equations yields the same unit rows as an n-th order equation). Tie/search: permuted, renamed and re-formulated (function of time / n-th order / first-order chain) twins are analysed by the real code; success, analytic sets, update maps and initial values compared as values at corresponding random points.",
    note=TB_COMMON + "That SymPy itself is insensitive to symbol names and ordering, and the function-of-time <-> ODE correspondence (C05), enter through the metamorphic runs, not through theorems.",
    ref="DESIGN.md 4 C06")

CLAIMED["C08"] = dict(
    technique="Lean 4 theorems about the symbol sets of the assembled update expressions, naming and look-up bookkeeping and the parameter filter; complete oracle on every returned dictionary",
    text="Proof: one_row_per_variable, rowSymbols_closed (every symbol of an assembled update expression is a state variable of the solver, the step symbol, an input constant or a propagator of the same row), used_propagators_defined + diag_propagator_defined (every propagator symbol used is defined, for any zero pattern sound for exp(hA)), stateName_injective (names unambiguous when no variable contains the marker), initialValue_found, listed_iff_referenced (parameter filter incl. initial values) and prefix_filter_misses_initial_values (the pre-repair defect). Search/tie: every dictionary returned for generated inputs (custom marker / step symbol, parameters none/all/partial/extra/only-in-initial-value, function-of-time entries, analytic solver disabled) is parsed and checked for completeness, closure, defined propagators, time dependence only through the step symbol, faithful initial values and listed parameter values.",
    note=TB_COMMON + "The numeric part of the dictionary (numeric update expressions) is covered by C02; the naming hypothesis 'no two (row, col) pairs print to the same __P__ string' is stated, not proved; .n()/str printing are contracts.",
    ref="DESIGN.md 4 C08")

CLAIMED["C05"] = dict(
    technique="Lean 4 / Mathlib theorem that the companion system reproduces f and its derivatives exactly (via uniqueness of the linear flow) + theorems about a model of the order search with SymPy steps as oracles; recorded-oracle correspondence and 40-digit stepping oracle",
    text="Proof: companion_flow_exact / function_reproduced - if f^(n) = sum a_k f^(k) holds identically with constant a, then the state (f, f', ..., f^(n-1)) at any T equals exp(T C) applied to the returned initial values, and any sequence of steps totalling T gives the same (steps_compose); order search: order_le_max (<= the documented maximum, re-read from the source: defaults_documented), accept_verified (a shape is returned only after the symbolic verification succeeded - rejection is the only alternative), accept_minimal, reject_means_unverified. Tie: every _is_zero answer from_function receives is recorded and replayed through the model, outcome (order or error kind) compared; the returned dictionary is stepped over random step sequences and compared with f and its derivatives at 40 digits; initial values = f^(k)(0); propagators free of t.",
    note=TB_COMMON + "diff, solve/inv, simplify and _is_zero are contracts: the verified identity is assumed to hold for all t when SymPy says so (checked numerically per case). Order-4 inputs run in the thorough tier (minutes of SymPy time).",
    ref="DESIGN.md 4 C05")

CLAIMED["C11"] = dict(
    technique="Lean 4 theorems about a model of the detector (pre-order collection of negative powers, solve oracle, de-duplication, validity filter); recorded-oracle correspondence and a closed-form family of systems with known singular sets",
    text="Proof (PARTIAL - detector logic): negBases_iff_sub (a base is collected iff Pow(base, negative) occurs in the entry: nothing overlooked, nothing else), dedup_no_loss, detect_sound (every reported condition was returned by solve for a denominator occurring in P - so it zeroes that denominator under the solve contract - and leaves A defined), detect_complete / detect_complete_rel (every equality found by solve, in either direction, under which a denominator vanishes while A stays defined is reported), detect_nodup. Tie: sympy.solve results and the validity-test answers are recorded from the real run and replayed through the model; the reported list (order included) is compared. Search: every reported condition is substituted back into P and A; forests of chains with symbolic decay constants (rate, time-constant and mixed forms, repeated constants) have their singular equalities known in closed form and are compared with what is reported.",
    note=TB_COMMON + "NOT proved: that the negative powers of SymPy's simplified exp(A h) are exactly the true singular parameter sets (checked on the family only); sympy.solve and simplify are contracts.",
    ref="DESIGN.md 4 C11")

# ---- session 3: models regenerated from the source on every run + kernel-checked refinement, and the symbolic pipeline model
REGEN = " Regenerated tie (DESIGN.md 11.3c): %s is re-translated from /repo's Python AST into Lean on every run (harness/translate/py2lean.py + specs.py) and %s prove(s), for all inputs, that the regenerated definition is the hand model the theorems above are about; an edit the translator cannot follow, or a definition the refinement no longer proves for, breaks the tie and starts the failing-input search."
ADD_TEXT = {
    "C01": REGEN % ("the assembly loop of generate_propagator_solver (guards, defined propagator symbols, terms of every update expression), the scatter loop of _generate_propagator_matrix and get_sub_system", "propagatorSolver_error_iff / propagatorSolver_ok / propagatorSolver_ok_of_model, scatterBlocks_inside / scatterBlocks_outside / scatterBlocks_eq_scatter (the scattered matrix of blocks_sound), subSystem_idx / subSystem_A_b / subSystem_c"),
    "C02": REGEN % ("the term loop of split_lin_inhom_nonlin, the re-attachment step of from_ode, the row-filling loop of from_shapes, get_sub_system and the string assembly of reconstitute_expr", "splitLinInhomNonlin_refines / splitLinInhomNonlin_lin_index, fromOdeReattach_refines, fromShapesRows_unit_rows (each lower derivative is updated by exactly the next-higher one) / fromShapesRows_top_row, subSystem_c, numericExpressions_rows / numericExpressions_value") + " End-to-end symbolic pipeline model (DESIGN.md 11.3d, no contract on expand()): splitRow_lossless, splitRow_A_const, splitRow_b_const, unitRow_den, rows_lossless, numericRhs_lossless, analyse_numeric_rhs - every right-hand side the model hands to the numeric solver denotes (as a Laurent polynomial) the right-hand side the user wrote; tied by the `pipeline` correspondence (order of x, verdict stages, values of A, b, c, sub-systems, numeric update expressions).",
    "C03": REGEN % ("get_dependency_edges, propagate_lin_cc_judgements, the two demotion rules of _find_analytically_solvable_equations and the solver partition of _analysis", "dependencyEdges_spec / propagate_refines / verdict_refines / demote_refines / demote_eligible / findAnalytic_refines / findAnalytic_total / solverPartition_requests / solverPartition_disabled") + " Pipeline model: analyse_verdict_some, analyse_partition, analyse_analytic_closed, analyse_analytic_linear.",
    "C04": REGEN % ("the term loop of split_lin_inhom_nonlin, the demotion rules and the worklist", "splitLinInhomNonlin_refines / demote_eligible / findAnalytic_refines / propagate_refines / verdict_refines") + " Pipeline model: collect_sound and analyse_spelling_invariant - two systems whose right-hand sides denote the same Laurent polynomials get the same x, verdict stages and partition, with expand() itself modelled (Poly.expandRaw + collect).",
    "C05": REGEN % ("the control flow of Shape.from_function (sample-time search, order-1 test, order search, both failure exits; SymPy answers as oracle)", "fromFunction_refines / fromFunction_refines_default"),
    "C06": REGEN % ("the row-filling loop of from_shapes and the scatter loop of _generate_propagator_matrix", "fromShapesRows_unit_rows / fromShapesRows_top_row / scatterBlocks_inside / scatterBlocks_outside / scatterBlocks_eq_scatter"),
    "C07": REGEN % ("_read_global_config and the option handling at the start of _analysis (Config.reset() first, early return without dynamics, options block, simplify_expression argument)", "readGlobalConfig_refines / analysisPrologue_refines (the model's call under the policy 'reset first', which probe_history_independent assumes) / analysisPrologue_ignores_store"),
    "C08": REGEN % ("the assembly loop of generate_propagator_solver and the parameter filter of _analysis", "propagatorSolver_ok (the propagator symbols defined are exactly the non-zero entries of P, one update expression per state variable in the order of x) and parameterFilter_refines / parameterFilter_none (each solver lists exactly the supplied parameters its expressions, propagators or initial values refer to)"),
    "C09": REGEN % ("Shape._parse_defining_expression and Shape.from_json (all thirteen raise sites)", "fromJson_refines (Validate.validate = regenerated from_json followed by the two name checks of Shape.__init__) and fromJson_never_ivMissing"),
    "C10": REGEN % ("get_jacobian_matrix", "jacobianMatrix_refines / jacobianMatrix_correct (every entry the regenerated loop assigns is A[i,j] + d_j c_i)"),
    "C11": REGEN % ("SingularityDetection (_generate_singularity_conditions, _flatten_conditions, _filter_valid_conditions, find_singularities)", "preorder_negBases / generateSingularityConditions_refines / flattenConditions_refines / filterValidConditions_refines / findSingularities_refines"),
    "C12": REGEN % ("AnalyticIntegrator.get_value and the merge loops of Integrator.set_spike_times", "getValue_refines / mergeSpikes_refines / setSpikeTimes_refines"),
    "C13": REGEN % ("the main loop of MixedIntegrator.integrate_ode (outer, inner and aliased-spike loops, bound enforcement, spike application, logging)", "integrateOde_refines (simulation by MI.integrate: same time, state, spike index, logged trajectory and bound flag; assumptions: total order, np.inf sentinel, dimension-preserving stepper)"),
    "C14": REGEN % ("StiffnessTester.check_stiffness (next to _draw_decision) and the naming of the numeric solver in _analysis", "checkStiffness_spec / recommendation_documented (explicit candidate first, implicit second, arguments of _draw_decision in the right places: off the ties the documented rule of the measured step sizes) / no_recommendation_without_benchmark / solverPartition_names"),
    "C15": REGEN % ("_generate_regular_spikes, _generate_homogeneous_poisson_spikes and spike_times_from_json", "regularSpikes_refines / poissonSpikes_refines / spikeTimesFromJson_refines"),
    "C16": " Regenerated tie: ode_analyzer.py is read as data on every run (argparse table, keyword -> parsed-argument mapping of the analysis call, normalisation of --preserve-expressions, result-name expression, order of steps and exits: Generated/CliTable.lean) and cli_keywords_pass_through / cli_arguments_as_modelled / cli_preserve_normalisation_as_modelled / cli_result_stem_as_modelled / cli_steps_as_modelled state that it is what Model/Cli.lean assumes.",
}
# ---- session 4: the glue around the core is regenerated as well (DESIGN.md 11.3c-bis)
GLUE = " Glue (DESIGN.md 11.3c-bis), regenerated and refined likewise: %s."
ADD_GLUE = {
    "C01": "get_connected_component_indices (connectedComponentIndices_refines, mirror_spec: the pattern handed to SciPy is symmetric and loses no non-zero entry) and _from_json_to_shapes (fromJsonToShapes_keys / fromJsonToShapes_time_not_param: which symbols become constant parameters, for every iteration order of the Python set); the flow oracle advances the configured time symbol",
    "C02": "_get_all_first_order_variables, _find_variable_definition and the preserve_expressions block of _analysis (preserveBlock_refines; entry_numeric_is_user_text: a preserved expression is the right-hand side text of one of the user's first-order equations for that variable, re-spelt with the configured marker; the internal assertion never fails); correspondence corr:glue_preserve",
    "C03": "_find_in_matrix, get_lin_cc_symbols, shape_order_from_system_matrix, get_connected_symbols (findPos_column_distinct and self_mem_getConnectedSymbols turn two renderings of the demotion-rule translation into theorems; getLinCcSymbols_of_distinct); correspondence corr:glue_lin",
    "C04": "_from_json_to_shapes (fromJsonToShapes_keys, fromJsonToShapes_var_not_param, fromJsonToShapes_shapes)",
    "C05": "get_connected_component_indices (connectedComponentIndices_refines, mirror_spec); every accepted function is also analysed with the analytic solver disabled and must satisfy the returned ODE",
    "C08": "Shape.get_initial_value, Shape.get_state_variables, SystemOfShapes.get_initial_value and the initial-value copy loop of _analysis (initialValueCopy_refines, ivOut_keys, ivOut_value, ivOut_keys_nodup) and _from_json_to_shapes; correspondence corr:glue_iv compares the (symbol, order) pairs model with the spellings the implementation produces",
    "C10": "MixedIntegrator.numerical_jacobian / step (numericalJacobian_entry: every Jacobian entry is the compiled entry at the same argument vector the stepping function uses at that (t, y)) and _from_json_to_shapes; oracle J = d(Ax+b+c)/dx on the complete stored system, also after a complete analysis",
    "C12": "AnalyticIntegrator._update_step (updateStep_lookup, updateStep_order_invariant) and set_initial_values (setInitialValues_refines, setIvSpec_lookup, setIvSpec_unknown); oracles: the caller's dictionary is unmodified, re-ordered dictionaries, parameter sweeps",
    "C13": "MixedIntegrator.step (mixedStep_refines, stepLocals_analytic, stepLocals_numeric, stepLocals_indep_stale) and the parameter / symbol handling of MixedIntegrator.__init__ (mixedInit_analytic_params: a parameter value given to the constructor wins over the one stored in the analytic solver dictionary; mixedInit_allSyms); run-time parameters that differ from the analysis-time ones against an exact reference",
    "C14": "MixedIntegrator.numerical_jacobian / step (numericalJacobian_entry, stepLocals_indep_stale); during the benchmark the stand-in's implicit stepper asks for the Jacobian at the start of every raw step and every 5th is audited against central differences of the derivative function at the same (t, y); every specified spike is delivered",
}
for _k, _v in ADD_GLUE.items():
    ADD_TEXT[_k] = ADD_TEXT[_k] + GLUE % _v
ADD_TECH = {k: "; model regenerated from the Python AST on every run with kernel-checked refinement to the hand model" for k in ADD_TEXT}
ADD_TECH["C02"] += "; symbolic end-to-end pipeline model on the Laurent-polynomial fragment with losslessness theorems and whole-pipeline correspondence"
for _k in ("C03", "C04"):
    ADD_TECH[_k] += "; symbolic end-to-end pipeline model"
for _k, _v in ADD_TEXT.items():
    CLAIMED[_k]["text"] += _v
    CLAIMED[_k]["technique"] += ADD_TECH[_k]
    CLAIMED[_k]["note"] += " The translator and its specs (Lean types, renderings of attribute accesses / external calls, verbatim-mapped statements) are part of the trusted base; the refinement theorems are not (kernel-checked each run)."

NOT_YET = {}

def main():
    props = [json.loads(l) for l in open(os.path.join(HERE, "properties.jsonl"))]
    checks, na = [], []
    for p in props:
        pid = p["id"]
        if pid in CLAIMED:
            c = CLAIMED[pid]
            checks.append({
                "property_id": pid,
                "quick_cmd": "./check %s quick" % pid,
                "thorough_cmd": "./check %s thorough" % pid,
                "evidence_file": "evidence/%s.json" % pid,
                "replay_cmd_template": "./check %s --replay {path}" % pid,
                "engine": "lean4-model+correspondence",
                "level_claimed": {"category": "proof", "text": c["text"], "design_ref": c["ref"]},
                "level_note": c["note"],
                "technique": c["technique"],
            })
        else:
            na.append({"property_id": pid, "reason": NOT_YET.get(pid, "not claimed yet: model, theorems and correspondence for this property are still being built (see DESIGN.md section 4); no check is registered until it is sound on the unchanged tree")})
    m = {
        "version": 1,
        "setup_cmd": "cd /verif && PYTHONPATH=/verif /venv/bin/python -m harness.translate.gen >/dev/null && cd lean && lake build",
        "hooks": {
            "guard": "ODETOOLBOX_VERIF",
            "enable": "environment variable ODETOOLBOX_VERIF=1 (set by ./check); Python needs no build step, /venv imports /repo's working tree",
            "baseline_off_cmd": "cd /repo && env -u ODETOOLBOX_VERIF /venv/bin/python -m pytest -ra -q -p no:cacheprovider --timeout=900 --continue-on-collection-errors",
            "source_commits": HOOK_COMMITS,
            "add_only": True,
        },
        "engines": [{"name": "lean4-model+correspondence", "path": "lean/ + harness/", "serves_properties": sorted(CLAIMED),
                     "kind_free_text": "Lean 4 models and theorems (lake project lean/), Python correspondence harness driving `lake env lean --run Main.lean`, AST translator for generated Lean files, direct oracles for failing-input search"}],
        "checks": checks,
        "not_applicable": na,
        "notes": "Exit 0 = held on everything explored; exit 1 + VIOLATION line otherwise; exit 2 = wall-clock budget exceeded (neither). VERIF_SEED honoured. known_findings.json lists open findings (KNOWN-FINDING lines) and repaired defects (fixed entries suppress nothing).",
    }
    with open(os.path.join(HERE, "MANIFEST.json"), "w") as f:
        json.dump(m, f, indent=1)
    print("claimed:", sorted(CLAIMED), "not claimed:", [x["property_id"] for x in na])

HOOK_COMMITS = []

if __name__ == "__main__":
    main()
