#!/bin/bash
# tools/try_round.sh <first> <last>   -- confirm and try the seeded changes S<first>..S<last> one after another
cd "$(dirname "$0")/.."
for d in seeded/S*; do
  id=$(basename $d); num=${id:1:2}; num=$((10#$num))
  [ $num -ge $1 ] && [ $num -le $2 ] || continue
  prop=$(python3 -c "import json;print(json.load(open('$d/meta.json'))['property'])")
  wt=$(python3 -c "import json;print(json.load(open('$d/meta.json')).get('worktree_literal',''))")
  extra=""
  case $prop in C03) extra="C04";; C04) extra="C03";; C06) extra="C08";; C09) extra="C07";; C07) extra="C09";; esac
  CONFIRM_TESTS=${CONFIRM_TESTS:-1} tools/try_seed.sh $id "$wt" $prop $extra
done
