#!/bin/bash
# tools/run_all.sh [quick|thorough] [seed]  -- run every claimed check once, print the summary lines
cd "$(dirname "$0")/.."
TIER=${1:-quick}; export VERIF_SEED=${2:-0}
for p in C01 C02 C03 C04 C05 C06 C07 C08 C09 C10 C11 C12 C13 C14 C15 C16; do
  ./check $p $TIER 2>&1 | grep -E "^VIOLATION|^KNOWN-FINDING|exit [0-9]|budget exceeded"
done
