#!/usr/bin/env python3
"""Record the hash of the *statement* of every property theorem in lean/statements.lock.
A later run whose theorem of the same name has a different statement reports `statement-changed`
(guards against a property theorem being quietly weakened to make a proof pass)."""
import importlib, json, os, sys
HERE = os.path.abspath(os.path.join(os.path.dirname(__file__), ".."))
sys.path.insert(0, HERE)
from harness.core import leantie
lock = {}
for i in range(1, 17):
    mod = importlib.import_module("harness.props.c%02d" % i)
    lp = os.path.join(leantie.LEAN, "statements.lock")
    if os.path.exists(lp):
        os.rename(lp, lp + ".old")
    try:
        res, raw = leantie.audit(mod.PROOF_MODULE, mod.THEOREMS)
    finally:
        if os.path.exists(lp + ".old"):
            os.rename(lp + ".old", lp)
    for t, st in res.items():
        assert st["status"] == "ok" and st.get("statement_hash"), (t, st, raw[-500:])
        lock[t] = st["statement_hash"]
json.dump(lock, open(os.path.join(leantie.LEAN, "statements.lock"), "w"), indent=1, sort_keys=True)
print("locked", len(lock), "statements")
