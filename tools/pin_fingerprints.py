#!/usr/bin/env python3
"""Record the normalised-AST fingerprints of every modelled function at the current /repo HEAD (the pinned,
repaired tree).  A check run reports which fingerprints differ from these (evidence: lean.fingerprints_changed_vs_pinned)."""
import json, os, sys
sys.path.insert(0, os.path.abspath(os.path.join(os.path.dirname(__file__), "..")))
from harness.translate import gen
out = {p: gen.fingerprints(p) for p in sorted(gen.FINGERPRINTED)}
json.dump(out, open(os.path.join(os.path.dirname(__file__), "..", "fingerprints.json"), "w"), indent=1, sort_keys=True)
print("pinned", sum(len(v) for v in out.values()), "fingerprints")
