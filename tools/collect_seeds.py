#!/usr/bin/env python3
"""tools/collect_seeds.py <dir with wt_Cxx/_seed> <round>  -- copy finished seeded changes into /verif/seeded/S<n>-<prop>-<slug>/"""
import json, os, re, shutil, sys
src, rnd = sys.argv[1], int(sys.argv[2])
HERE = os.path.abspath(os.path.join(os.path.dirname(__file__), ".."))
have = sorted(os.listdir(os.path.join(HERE, "seeded")))
taken = {json.load(open(os.path.join(HERE, "seeded", d, "meta.json"))).get("worktree_literal") for d in have}
n = max(int(re.match(r'S(\d+)-', d).group(1)) for d in have) + 1
for w in sorted(os.listdir(src)):
    if not w.startswith("wt_"):
        continue
    wt = os.path.join(src, w)
    sd = os.path.join(wt, "_seed")
    if wt in taken or not all(os.path.exists(os.path.join(sd, f)) for f in ("patch.diff", "demo.py", "meta.json")):
        continue
    m = json.load(open(os.path.join(sd, "meta.json")))
    prop = w[3:]
    slug = "-".join(re.findall(r"[a-z0-9]+", m.get("summary", "").lower())[:5])[:40] or "change"
    sid = "S%02d-%s-%s" % (n, prop, slug)
    n += 1
    dst = os.path.join(HERE, "seeded", sid)
    os.makedirs(dst)
    for f in ("patch.diff", "demo.py", "meta.json"):
        shutil.copy(os.path.join(sd, f), os.path.join(dst, f))
    m["property"] = m.get("property", prop)
    m["round"] = rnd
    m["worktree_literal"] = wt
    json.dump(m, open(os.path.join(dst, "meta.json"), "w"), indent=1)
    print(sid)
