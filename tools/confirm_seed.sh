#!/bin/bash
# tools/confirm_seed.sh <seed-id>   -- stage 1 (independent of /repo's working tree, may run in parallel): on a scratch worktree of
# /repo's HEAD the demo exits 0, with the patch applied it exits 1, and the unedited test suite still passes with the patch
set -u
ID="$1"; V=/verif; D=$V/seeded/$ID
[ -f "$D/patch.diff" ] || exit 2
WT=$(python3 -c "import json;print(json.load(open('$D/meta.json')).get('worktree_literal',''))")
S=/tmp/seedcheck_$ID
git -C /repo worktree remove --force "$S" >/dev/null 2>&1
git -C /repo worktree add -q --detach "$S" HEAD || exit 2
sed "s#$WT#$S#g" "$D/demo.py" > "$S/_demo.py"
( cd "$S" && timeout 1500 /venv/bin/python _demo.py > "$D/demo_clean.log" 2>&1 ); RC_CLEAN=$?
git -C "$S" apply "$D/patch.diff" || { echo "[$ID] patch does not apply"; git -C /repo worktree remove --force "$S"; exit 2; }
( cd "$S" && timeout 1500 /venv/bin/python _demo.py > "$D/demo_patched.log" 2>&1 ); RC_PATCHED=$?
TESTS=$( cd "$S" && env -u ODETOOLBOX_VERIF /venv/bin/python -m pytest -q -p no:cacheprovider --timeout=900 -n ${NPROC:-4} 2>&1 | tail -1 )
git -C /repo worktree remove --force "$S"
echo "[$ID] demo clean rc=$RC_CLEAN patched rc=$RC_PATCHED tests: $TESTS"
python3 - "$D" "$RC_CLEAN" "$RC_PATCHED" "$TESTS" <<'PY'
import json, sys
d, rc0, rc1, tests = sys.argv[1:5]
m = json.load(open(d + "/meta.json"))
c = m.get("confirmed", {})
c.update({"demo_on_clean_tree_rc": int(rc0), "demo_with_patch_rc": int(rc1), "tests_with_patch": tests})
m["confirmed"] = c
json.dump(m, open(d + "/meta.json", "w"), indent=1)
PY
