#!/bin/bash
# tools/check_seed.sh <seed-id> <check ids...>  -- stage 2: apply the patch to /repo, run the given quick checks, undo
set -u
ID="$1"; shift; V=/verif; D=$V/seeded/$ID
git -C /repo diff --quiet || { echo "/repo is dirty, refusing"; exit 2; }
git -C /repo apply "$D/patch.diff" || exit 2
RES=""
for c in "$@"; do
  OUT=$( cd $V && ./check $c quick 2>&1 | grep -E "^VIOLATION|^KNOWN|exit [0-9]" | tr '\n' ';' )
  RES="$RES $c: $OUT"
  echo "[$ID]   $c -> $OUT" | cut -c1-400
done
git -C /repo checkout -- .
python3 - "$D" "$RES" <<'PY'
import json, sys
d, res = sys.argv[1:3]
m = json.load(open(d + "/meta.json"))
c = m.get("confirmed", {})
c["checks_run_with_patch_applied_to_repo"] = res.strip()
m["confirmed"] = c
m["result_now"] = res.strip()
json.dump(m, open(d + "/meta.json", "w"), indent=1)
PY
